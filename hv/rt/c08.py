"""C08 - degrees and connected components equal their combinatorial definitions (bounded run-time contracts).

Scope
-----
Exhaustive (every case: every node, every filter in {none, order=0..4, size=1..5}, both call styles - the
method of the container and the module-level function of measures/degree.py resp. utils/cc.py):

* quick:    every Hypergraph on the node set {0..n-1}, n <= 4, with <= 4 distinct hyperedges of size 1..4, and n = 5
            with <= 3 hyperedges (nodes are added first, so uncovered nodes are isolated nodes; singleton hyperedges
            included); the same structures for n <= 4 / <= 3 hyperedges with string labels.
* both tiers: every ordered sequence of 2..4 components of sizes 1..4 (single hyperedge or chain of pairs), 3 filters;
* thorough: additionally n = 5 with <= 4 hyperedges (31 931 labelled hypergraphs), and all of it once more with
            string labels.
* degrees only, for the other containers: every DirectedHypergraph on <= 3 nodes / <= 3 hyperedges and 4 nodes /
  <= 2 hyperedges (thorough: 4 nodes / <= 3) with non-empty disjoint source and target sets; every
  TemporalHypergraph and MultiplexHypergraph on <= 3 nodes, two times resp. two layers, <= 3 hyperedges of size
  1..3 (thorough: 4 nodes).

Same object queried around an edit (query -> edit -> the same query again; every degree and component query, both
call styles, the same filter before and after; the edit keeps the number of nodes and the number of hyperedges, so a
result remembered under such cheap invariants - counts, filter, node - would be exposed; clauses evaluated on a state
reached by edits carry keys ending in "|after edits on the same object"):

* exhaustive, Hypergraph: every hypergraph on n <= 3 nodes with 1..3 hyperedges and n = 4 with 1..2 (thorough: 1..3,
  and n = 5 with 1..2; n = 3 / 1..2 once more with string labels) x every pair (hyperedge removed, different hyperedge
  of size 1..4 added); the same hypergraphs (also without hyperedge) x every node replaced by a new node that takes
  over its hyperedges, and x every two nodes exchanged.  One round per filter (quick: none, order=0, size=2, order=2,
  size=4; thorough: all 11, for n = 5 those five and order=1, size=3), the edit alternating forth and back, so that
  over the enumeration every filter meets every edit.
* exhaustive, degrees of the other containers: DirectedHypergraph on 2..3 nodes with <= 2 hyperedges, Temporal- and
  MultiplexHypergraph on 2 nodes with <= 2 and 3 nodes with <= 1 (thorough: <= 2) hyperedges, same three edits, 4
  filters (thorough: 9).
* sampled: random histories as below followed by 3..6 random edits (hyperedge swapped for a random / a same-size one,
  two hyperedges moved, node replaced keeping or re-drawing its hyperedges, two nodes exchanged; one edit in three
  is instead a single add_edge / remove_edge / add_node / remove_node, which changes a count), one filter per round,
  drawn mostly from the sizes present.
  In a swap the removal comes first or the addition comes first (exhaustive part: one order forth, the other back).

Sampled (seeded, counts fixed per tier): random histories of add_node / add_edge for all four classes with up to 7
nodes, up to 6 hyperedges of size 1..5, labels 0..n-1 / non-contiguous ints / strings, explicit isolated nodes
interleaved with the hyperedges, weighted and unweighted, and histories that re-add an existing hyperedge with its
members in another order (their degree clauses are reported under a key tagged "|re-added hyperedge", because the
adjacency lists of three containers are known to duplicate the incidence then - a C02-C04 defect surfacing here).

Oracle
------
A ghost model built from the history alone (set of nodes, set of distinct hyperedges as frozensets).  Degree = number
of filtered hyperedges containing the node (brute force); components = union-find over the filtered hyperedges of
size >= 2; isolated = in no filtered hyperedge of size >= 2.  In an edit sequence the history includes the edits
(remove_edge takes the hyperedge away and leaves its nodes, remove_node takes the node and its hyperedges away), and
every query is compared with the model of the history up to that moment.  The implementation is observed through its
public methods / functions only.  A case whose container disagrees with the ghost model about its nodes / hyperedges
(get_nodes / get_edges) is outside C08 (that is C01-C04) and is skipped and counted.

Limits
------
* components, isolated nodes: Hypergraph only (the statement extends only the degrees to the other containers).
* MultiplexHypergraph has no degree_distribution method: only the module-level function is driven for it.
* replay() re-executes one (history, filter) pair and reports the clause named by the recorded key; for an edit
  sequence it re-executes the whole sequence (the failing answer depends on the queries made before the edit).
* the exhaustive edit sequences only use edits that keep both counts; edits that change a count occur in the random
  sequences only.  An edit the container rejects, or after which get_nodes / get_edges disagree with the model, ends
  the sequence (that is C01-C04) and is counted.
* the empty hypergraph (no node) is a trivial case; largest_component(_size) may reject it (max of nothing).
* calling with both order and size is rejected by the code with ValueError; the statement does not speak about it.
* a DirectedHypergraph hyperedge whose source and target share a node has no agreed size / multiplicity (the code
  counts the node once per side, consistently with its own size |source|+|target|); such hyperedges are not generated.
* nothing is proved; the sampled part depends on the seed.
"""
import itertools
import multiprocessing
import os
import random

PROPERTY = "C08"

RAISES = "does not raise on admissible input"
C_DEG = "degree = number of distinct filtered hyperedges with the node"
C_SEQ = "degree_sequence = degree of every node"
C_SUM = "degrees sum to total size of the filtered hyperedges"
C_DIST = "degree_distribution = histogram of the degrees"
C_CC = "components = reachability classes of the filtered hyperedges"
C_PART = "components partition the node set"
C_NCC = "component of a node = its reachability class under the same filter"
C_NUM = "number of components = number of reachability classes under the same filter"
C_LC = "largest component = a reachability class of maximal size under the same filter"
C_LCS = "largest component size = maximal class size under the same filter"
C_CONN = "is_connected = exactly one reachability class under the same filter"
C_ISO = "isolated nodes = nodes in no filtered hyperedge of size >= 2"
C_ISO1 = "is_isolated = node in no filtered hyperedge of size >= 2"
C_PURE = "queries do not modify the hypergraph"
SEQ = "|after edits on the same object"  # key suffix: the queried state was reached by editing an already queried object

NPROC = max(1, min(14, (os.cpu_count() or 2) - 2))


# ----------------------------------------------------------------------------------------------- recorder
class Rec:
    """Collects clause evaluations and the first failure per key (merged into ctx by the parent process)."""

    def __init__(self):
        self.evals, self.fails, self.nfail, self.counts = {}, {}, {}, {}

    def check(self, cond, function, clause, input, expected=None, observed=None, key=None, replay=None):
        name = f"{function}:{clause}"
        self.evals[name] = self.evals.get(name, 0) + 1
        if not cond:
            key = key or name
            self.nfail[key] = self.nfail.get(key, 0) + 1
            if key not in self.fails:
                ev = lambda x: x() if callable(x) else x  # noqa: E731  (rendered lazily, on failure only)
                self.fails[key] = dict(function=function, clause=clause, input=ev(input), expected=ev(expected),
                                       observed=ev(observed), key=key,
                                       replay=dict(replay, key=key) if isinstance(replay, dict) else replay)
        return cond

    def count(self, name, n=1):
        self.counts[name] = self.counts.get(name, 0) + n

    def merge(self, other):
        for k, v in other.evals.items():
            self.evals[k] = self.evals.get(k, 0) + v
        for k, v in other.nfail.items():
            self.nfail[k] = self.nfail.get(k, 0) + v
        for k, v in other.counts.items():
            self.counts[k] = self.counts.get(k, 0) + v
        for k, v in other.fails.items():
            self.fails.setdefault(k, v)

    def into(self, ctx):
        for k, v in self.evals.items():
            ctx.contract_evals[k] = ctx.contract_evals.get(k, 0) + v
        for k, v in self.counts.items():
            ctx.count(k, v)
        for k in self.fails:
            f = self.fails[k]
            ctx.count("failed evaluations of " + k, self.nfail[k])
            ctx.fail(f["function"], f["clause"], f["input"], f["expected"], f["observed"], key=f["key"],
                     replay=f["replay"])


def _js(x):
    """json-able rendering of results (sets sorted, tuples as lists)."""
    if isinstance(x, (set, frozenset)):
        try:
            return [_js(v) for v in sorted(x)]
        except TypeError:
            return sorted((_js(v) for v in x), key=repr)
    if isinstance(x, (list, tuple)):
        return [_js(v) for v in x]
    if isinstance(x, dict):
        return {str(k): _js(v) for k, v in x.items()}
    if isinstance(x, (str, int, float, bool)) or x is None:
        return x
    return repr(x)


# ----------------------------------------------------------------------------------------------- specs
# spec = dict(cls=..., weighted=bool, ops=[["n", node] | ["e", edge, weight-or-None]])
#   edge: Hypergraph [nodes]; DirectedHypergraph [[source], [target]]; TemporalHypergraph [time, [nodes]];
#   MultiplexHypergraph [[nodes], layer]

def _classes():
    from hypergraphx import Hypergraph, DirectedHypergraph, TemporalHypergraph, MultiplexHypergraph
    return dict(Hypergraph=Hypergraph, DirectedHypergraph=DirectedHypergraph, TemporalHypergraph=TemporalHypergraph,
                MultiplexHypergraph=MultiplexHypergraph)


def apply_op(hg, cls, op):
    """One history step on the real container, through the public API."""
    if op[0] == "n":
        hg.add_node(op[1])
        return
    if op[0] == "rn":
        hg.remove_node(op[1])
        return
    e = op[1]
    if op[0] == "re":
        if cls == "Hypergraph":
            hg.remove_edge(tuple(e))
        elif cls == "DirectedHypergraph":
            hg.remove_edge((tuple(e[0]), tuple(e[1])))
        elif cls == "TemporalHypergraph":
            hg.remove_edge(tuple(e[1]), e[0])
        else:
            hg.remove_edge((tuple(e[0]), e[1]))
        return
    w = op[2] if len(op) > 2 else None
    if cls == "Hypergraph":
        hg.add_edge(tuple(e), weight=w)
    elif cls == "DirectedHypergraph":
        hg.add_edge((tuple(e[0]), tuple(e[1])), weight=w)
    elif cls == "TemporalHypergraph":
        hg.add_edge(tuple(e[1]), e[0], weight=w)
    else:
        hg.add_edge(tuple(e[0]), e[1], weight=w)


def build(spec):
    """Replays the history of the spec (its "ops") on a fresh container through the public API."""
    cls = spec["cls"]
    hg = _classes()[cls](weighted=bool(spec.get("weighted")))
    for op in spec["ops"]:
        apply_op(hg, cls, op)
    return hg


def edge_nodes(cls, e):
    """The nodes of a hyperedge written in the spec format of its class."""
    return (list(e[0]) + list(e[1]) if cls == "DirectedHypergraph" else
            list(e[1]) if cls == "TemporalHypergraph" else list(e[0]) if cls == "MultiplexHypergraph" else list(e))


def map_edge(cls, e, f):
    """The hyperedge with every node v replaced by f.get(v, v)."""
    g = lambda xs: [f.get(x, x) for x in xs]  # noqa: E731
    return (g(e) if cls == "Hypergraph" else [g(e[0]), g(e[1])] if cls == "DirectedHypergraph" else
            [e[0], g(e[1])] if cls == "TemporalHypergraph" else [g(e[0]), e[1]])


class Model:
    """Ghost model of a history: nodes (ordered, distinct), distinct hyperedges with members and size.

    History steps: ["n", v] add node; ["e", edge, weight?] add hyperedge (and its nodes); ["re", edge] remove that
    hyperedge (its nodes stay); ["rn", v] remove the node together with every hyperedge containing it."""

    def __init__(self, spec):
        self.cls = spec["cls"]
        self.nodes, self.nodeset, self.edges, self.raw = [], set(), {}, {}
        self.readded = False  # some step added a hyperedge that was present at that moment
        for op in spec["ops"]:
            self.apply(op)

    def ident(self, e):
        cls = self.cls
        if cls == "Hypergraph":
            return frozenset(e), frozenset(e), len(set(e))
        if cls == "DirectedHypergraph":
            return ((frozenset(e[0]), frozenset(e[1])), frozenset(e[0]) | frozenset(e[1]),
                    len(set(e[0])) + len(set(e[1])))
        if cls == "TemporalHypergraph":
            return (e[0], frozenset(e[1])), frozenset(e[1]), len(set(e[1]))
        return (frozenset(e[0]), e[1]), frozenset(e[0]), len(set(e[0]))

    def _node(self, v):
        if v not in self.nodeset:
            self.nodeset.add(v)
            self.nodes.append(v)

    def apply(self, op):
        if op[0] == "n":
            self._node(op[1])
        elif op[0] == "rn":
            v = op[1]
            self.nodes.remove(v)
            self.nodeset.discard(v)
            for i in [i for i, ms in self.edges.items() if v in ms[0]]:
                del self.edges[i], self.raw[i]
        elif op[0] == "re":
            i = self.ident(op[1])[0]
            del self.edges[i], self.raw[i]
        else:
            i, members, size = self.ident(op[1])
            if i in self.edges:
                self.readded = True
            else:
                self.raw[i] = op[1]
            self.edges[i] = (members, size)
            for v in edge_nodes(self.cls, op[1]):
                self._node(v)

    def filtered(self, flt):
        es = list(self.edges.values())
        if flt is None:
            return es
        size = flt[1] if flt[0] == "size" else flt[1] + 1
        return [ms for ms in es if ms[1] == size]


def history_tag(spec, model):
    """Key suffix for histories whose degree clauses can fail for a reason of their own (derived from the ops)."""
    return "|re-added hyperedge" if model.readded else ""


def observed_structure(cls, hg):
    """(set of nodes, set of hyperedge identities) as the container reports them."""
    nodes = set(hg.get_nodes())
    edges = hg.get_edges()
    if cls == "Hypergraph":
        ids = {frozenset(e) for e in edges}
    elif cls == "DirectedHypergraph":
        ids = {(frozenset(e[0]), frozenset(e[1])) for e in edges}
    elif cls == "TemporalHypergraph":
        ids = {(e[0], frozenset(e[1])) for e in edges}
    else:
        ids = {(frozenset(e[0]), e[1]) for e in edges}
    return nodes, ids, len(edges)


def snapshot(cls, hg):
    nodes = list(hg.get_nodes())
    edges = list(hg.get_edges())
    if cls in ("Hypergraph", "DirectedHypergraph"):
        ws = [hg.get_weight(e) for e in edges]
    elif cls == "TemporalHypergraph":
        ws = [hg.get_weight(e[1], e[0]) for e in edges]
    else:
        ws = [hg.get_weight(e[0], e[1]) for e in edges]
    return nodes, edges, ws, hg.is_weighted()


def kwargs(flt):
    return {} if flt is None else {flt[0]: flt[1]}


def fname(mod, name, cls):
    return f"{mod}.{name}" if cls == "Hypergraph" else f"{mod}.{name}[{cls}]"


def union_find(nodes, filtered):
    parent = {v: v for v in nodes}

    def find(v):
        while parent[v] != v:
            parent[v] = parent[parent[v]]
            v = parent[v]
        return v

    for members, _size in filtered:
        ms = list(members)
        for v in ms[1:]:
            a, b = find(ms[0]), find(v)
            if a != b:
                parent[a] = b
    classes = {}
    for v in nodes:
        classes.setdefault(find(v), set()).add(v)
    return {v: frozenset(c) for c in classes.values() for v in c}


# ----------------------------------------------------------------------------------------------- the contracts
def check_case(rec, spec, filters):
    """All clauses of C08 on one history, for every filter in `filters`."""
    import hypergraphx.measures.degree as D
    cls = spec["cls"]
    model = Model(spec)
    tag = history_tag(spec, model)
    try:
        hg = build(spec)
        nodes_o, ids_o, n_edges = observed_structure(cls, hg)
    except Exception as ex:  # building the container is C01-C04's business
        rec.count(f"skipped: history rejected by {cls} ({type(ex).__name__})")
        return
    if nodes_o != model.nodeset or ids_o != set(model.edges) or n_edges != len(model.edges):
        rec.count(f"skipped: {cls} disagrees with the ghost model about nodes/hyperedges (C01-C04 domain)")
        return
    before = snapshot(cls, hg)
    for flt in filters:
        inp = dict(spec=spec, filter=list(flt) if flt else None)
        rp = dict(spec=spec, filter=list(flt) if flt else None)
        _degrees(rec, D, cls, hg, model, flt, inp, rp, tag)
        if cls == "Hypergraph":
            _components(rec, hg, model, flt, inp, rp, tag)
    try:
        after = snapshot(cls, hg)
    except Exception as ex:
        after = f"{type(ex).__name__}: {ex}"
    rec.check(after == before, fname("degree+cc", "queries", cls), C_PURE, dict(spec=spec), lambda: _js(before),
              lambda: _js(after),
              replay=dict(spec=spec, filter="all"))


def check_seq(rec, spec, filters):
    """query -> edit -> the same query again, on ONE object.

    spec["ops"] builds the object; spec["edits"] is a list of edits (lists of history steps); except in the random
    sequences (where one edit in three adds or removes a single node / hyperedge) each of them leaves the number of
    nodes and the number of hyperedges unchanged.  Round k (one per filter, the spec's own "filters" if it has
    them): every degree / component query with filter k on the current state, then edit k (cyclically), then every
    query with the SAME filter on the new state.  The oracle is the ghost model of the whole history so far; the
    property speaks about the hypergraph as it is, so an answer computed for an earlier state is a violation."""
    import hypergraphx.measures.degree as D
    cls = spec["cls"]
    if spec.get("filters") is not None:
        filters = [tuple(f) if f else None for f in spec["filters"]]
    edits = spec["edits"]
    model = Model(spec)
    try:
        hg = build(spec)
    except Exception as ex:  # building the container is C01-C04's business
        rec.count(f"skipped: history rejected by {cls} ({type(ex).__name__})")
        return

    def agrees():
        try:
            nodes_o, ids_o, n_edges = observed_structure(cls, hg)
        except Exception:
            return False
        return nodes_o == model.nodeset and ids_o == set(model.edges) and n_edges == len(model.edges)

    if not agrees():
        rec.count(f"skipped: {cls} disagrees with the ghost model about nodes/hyperedges (C01-C04 domain)")
        return
    rp = dict(spec=spec, filters=[list(f) if f else None for f in filters])

    def queries(flt, state, when):
        inp = dict(spec=spec, filter=list(flt) if flt else None, state=state, when=when)
        seq = SEQ if state else ""
        before = snapshot(cls, hg)
        exp = [_degrees(rec, D, cls, hg, model, flt, inp, rp, history_tag(spec, model) + seq)]
        if cls == "Hypergraph":
            exp.append(_components(rec, hg, model, flt, inp, rp, "", ctag=seq))
        try:
            after = snapshot(cls, hg)
        except Exception as ex:
            after = f"{type(ex).__name__}: {ex}"
        rec.check(after == before, fname("degree+cc", "queries", cls), C_PURE, inp, lambda: _js(before),
                  lambda: _js(after), replay=rp)
        return exp

    for k, flt in enumerate(filters):
        exp0 = queries(flt, k, "before edit %d" % k)
        n0, m0 = len(model.nodes), len(model.edges)
        try:
            for op in edits[k % len(edits)]:
                apply_op(hg, cls, op)
                model.apply(op)
        except Exception as ex:  # an edit rejected by the container is C01-C04's business
            rec.count(f"skipped: edit rejected by {cls} ({type(ex).__name__})")
            return
        keeps = (len(model.nodes), len(model.edges)) == (n0, m0)
        if not keeps and spec.get("kind") != "random edits":
            raise AssertionError(f"generated edit does not preserve the counts: {spec}")
        if not agrees():
            rec.count(f"skipped: {cls} disagrees with the ghost model about nodes/hyperedges (C01-C04 domain)")
            return
        exp1 = queries(flt, k + 1, "after edit %d" % k)
        rec.count("sequence rounds: query, edit, same query on the same object")
        if keeps:
            rec.count("sequence rounds whose edit keeps the number of nodes and of hyperedges")
            if exp0 != exp1:
                rec.count("sequence rounds whose edit keeps both counts and changes the expected answers")


def _call(rec, fn, f, inp, rp, tag, how):
    try:
        out = f()
    except Exception as ex:
        rec.check(False, fn, RAISES, dict(inp, call=how), None, f"{type(ex).__name__}: {ex}",
                  key=f"{fn}:{RAISES}", replay=rp)
        return False, None
    rec.check(True, fn, RAISES, None)
    return True, out


def _degrees(rec, D, cls, hg, model, flt, inp, rp, tag):
    kw = kwargs(flt)
    filtered = model.filtered(flt)
    deg = {v: sum(1 for ms in filtered if v in ms[0]) for v in model.nodes}
    total = sum(ms[1] for ms in filtered)
    hist = {}
    for d in deg.values():
        hist[d] = hist.get(d, 0) + 1
    f_deg, f_seq, f_dist = fname("degree", "degree", cls), fname("degree", "degree_sequence", cls), \
        fname("degree", "degree_distribution", cls)
    for style in ("method", "function"):
        for v in model.nodes:
            ok, out = _call(rec, f_deg, (lambda: hg.degree(v, **kw)) if style == "method" else
                            (lambda: D.degree(hg, v, **kw)), inp, rp, tag, f"{style} degree({v!r})")
            if ok:
                rec.check(out == deg[v], f_deg, C_DEG, lambda: dict(inp, node=v, call=style), deg[v], lambda: _js(out),
                          key=f"{f_deg}:{C_DEG}{tag}", replay=rp)
        ok, out = _call(rec, f_seq, (lambda: hg.degree_sequence(**kw)) if style == "method" else
                        (lambda: D.degree_sequence(hg, **kw)), inp, rp, tag, f"{style} degree_sequence")
        if ok:
            rec.check(isinstance(out, dict) and out == deg, f_seq, C_SEQ, lambda: dict(inp, call=style),
                      lambda: _js(deg), lambda: _js(out),
                      key=f"{f_seq}:{C_SEQ}{tag}", replay=rp)
            if isinstance(out, dict):
                rec.check(sum(out.values()) == total, f_seq, C_SUM, lambda: dict(inp, call=style), total,
                          lambda: _js(out), key=f"{f_seq}:{C_SUM}{tag}", replay=rp)
        if style == "method" and not hasattr(hg, "degree_distribution"):
            continue
        ok, out = _call(rec, f_dist, (lambda: hg.degree_distribution(**kw)) if style == "method" else
                        (lambda: D.degree_distribution(hg, **kw)), inp, rp, tag, f"{style} degree_distribution")
        if ok:
            good = isinstance(out, dict) and {k: c for k, c in out.items() if c != 0} == hist
            rec.check(good, f_dist, C_DIST, lambda: dict(inp, call=style), lambda: _js(hist), lambda: _js(out),
                      key=f"{f_dist}:{C_DIST}{tag}", replay=rp)
    return deg


def _components(rec, hg, model, flt, inp, rp, tag, ctag=""):
    import hypergraphx.utils.cc as CC
    kw = kwargs(flt)
    filtered = [ms for ms in model.filtered(flt) if ms[1] >= 2]
    cls_of = union_find(model.nodes, filtered)
    classes = set(cls_of.values())
    touched = set()
    for members, _s in filtered:
        touched |= members
    isolated = model.nodeset - touched
    biggest = max((len(c) for c in classes), default=0)
    F = lambda n: "cc." + n

    def call(name, style, *args):
        fn = F(name)
        return _call(rec, fn, (lambda: getattr(hg, name)(*args, **kw)) if style == "method" else
                     (lambda: getattr(CC, name)(hg, *args, **kw)), inp, rp, tag, f"{style} {name}{args!r}")

    def chk(cond, name, clause, style, expected, observed, **extra):
        rec.check(cond, F(name), clause, lambda: dict(inp, call=style, **extra), expected, observed,
                  key=f"{F(name)}:{clause}{ctag}", replay=rp)

    for style in ("method", "function"):
        ok, out = call("connected_components", style)
        if ok:
            try:
                comps = [set(c) for c in out]
                part = (all(len(c) > 0 for c in comps) and sum(len(c) for c in comps) == len(model.nodeset)
                        and set().union(*comps) == model.nodeset)
                same = len(comps) == len(classes) and {frozenset(c) for c in comps} == classes
            except TypeError:
                part = same = False
            chk(part, "connected_components", C_PART, style, lambda: _js(sorted(model.nodes, key=repr)), lambda: _js(out))
            chk(same, "connected_components", C_CC, style, lambda: _js(classes), lambda: _js(out))
        ok, out = call("num_connected_components", style)
        if ok:
            chk(out == len(classes), "num_connected_components", C_NUM, style, lambda: len(classes), lambda: _js(out))
        ok, out = call("is_connected", style)
        if ok:
            chk(out == (len(classes) == 1), "is_connected", C_CONN, style, lambda: len(classes) == 1, lambda: _js(out))
        if model.nodes:
            ok, out = call("largest_component", style)
            if ok:
                try:
                    good = frozenset(out) in classes and len(out) == biggest
                except TypeError:
                    good = False
                chk(good, "largest_component", C_LC, style, lambda: _js([c for c in classes if len(c) == biggest]), lambda: _js(out))
            ok, out = call("largest_component_size", style)
            if ok:
                chk(out == biggest, "largest_component_size", C_LCS, style, lambda: biggest, lambda: _js(out))
        ok, out = call("isolated_nodes", style)
        if ok:
            try:
                good = len(list(out)) == len(set(out)) and set(out) == isolated
            except TypeError:
                good = False
            chk(good, "isolated_nodes", C_ISO, style, lambda: _js(isolated), lambda: _js(out))
        for v in model.nodes:
            ok, out = call("node_connected_component", style, v)
            if ok:
                try:
                    good = set(out) == cls_of[v] and len(out) == len(cls_of[v])
                except TypeError:
                    good = False
                chk(good, "node_connected_component", C_NCC, style, lambda: _js(cls_of[v]), lambda: _js(out), node=v)
            ok, out = call("is_isolated", style, v)
            if ok:
                chk(out == (v in isolated), "is_isolated", C_ISO1, style, lambda: v in isolated, lambda: _js(out), node=v)
    return classes, isolated


# ----------------------------------------------------------------------------------------------- enumeration
def filters_for(max_size):
    return [None] + [("order", k) for k in range(0, max_size + 1)] + [("size", k) for k in range(1, max_size + 2)]


STR = ["a", "b", "c", "d", "e"]


def enum_hypergraphs(n, max_edges, labels=None, min_edges=0):
    lab = labels or list(range(n))
    pool = [c for s in range(1, min(4, n) + 1) for c in itertools.combinations(range(n), s)]
    for m in range(min_edges, max_edges + 1):
        for es in itertools.combinations(pool, m):
            yield dict(cls="Hypergraph", weighted=False,
                       ops=[["n", lab[i]] for i in range(n)] + [["e", [lab[i] for i in e]] for e in es])


def enum_directed(n, max_edges, min_edges=0):
    pool = []
    for assign in itertools.product((0, 1, 2), repeat=n):  # 0 absent, 1 source, 2 target
        s = [i for i in range(n) if assign[i] == 1]
        t = [i for i in range(n) if assign[i] == 2]
        if s and t:
            pool.append([s, t])
    for m in range(min_edges, max_edges + 1):
        for es in itertools.combinations(pool, m):
            yield dict(cls="DirectedHypergraph", weighted=False,
                       ops=[["n", i] for i in range(n)] + [["e", e] for e in es])


def enum_tagged(cls, n, max_edges, min_edges=0):
    """TemporalHypergraph (times 0,1) / MultiplexHypergraph (layers 'a','b'); hyperedges of size 1..3."""
    sets = [list(c) for s in range(1, min(3, n) + 1) for c in itertools.combinations(range(n), s)]
    if cls == "TemporalHypergraph":
        pool = [[t, e] for t in (0, 1) for e in sets]
    else:
        pool = [[e, lay] for lay in ("a", "b") for e in sets]
    for m in range(min_edges, max_edges + 1):
        for es in itertools.combinations(pool, m):
            yield dict(cls=cls, weighted=False, ops=[["n", i] for i in range(n)] + [["e", e] for e in es])


def enum_profiles():
    for m in (2, 3, 4):
        for sizes in itertools.product((1, 2, 3, 4), repeat=m):
            for chain in (False, True):
                if chain and max(sizes) < 3:
                    continue
                ops, edges, v = [], [], 0
                for sz in sizes:
                    comp = list(range(v, v + sz))
                    v += sz
                    ops += [["n", x] for x in comp]
                    if sz >= 2:
                        edges += [["e", [a, b]] for a, b in zip(comp, comp[1:])] if chain else [["e", comp]]
                yield dict(cls="Hypergraph", weighted=False, ops=ops + edges)


def with_readd(spec):
    """The same history with its first hyperedge added once more, members in reverse order."""
    e = next(op[1] for op in spec["ops"] if op[0] == "e")
    cls = spec["cls"]
    r = (e[::-1] if cls == "Hypergraph" else [e[0][::-1], e[1][::-1]] if cls == "DirectedHypergraph" else
         [e[0], e[1][::-1]] if cls == "TemporalHypergraph" else [e[0][::-1], e[1]])
    return dict(spec, ops=spec["ops"] + [["e", r]])


def random_spec(rng, cls):
    n = rng.randint(1, 7)
    kind = rng.choice(["0..n-1", "ints", "str"])
    if kind == "0..n-1":
        labels = list(range(n))
    elif kind == "ints":
        labels = rng.sample(range(-3, 60), n)
    else:
        labels = rng.sample(["a", "b", "c", "d", "aa", "B", "z1", "10", "2", "node", "x y"], n)
    weighted = rng.random() < 0.4
    edges = []
    for _ in range(rng.randint(0, 6)):
        s = min(n, rng.choice([1, 2, 2, 2, 3, 3, 4, 4, 5]))
        members = rng.sample(labels, s)
        if cls == "Hypergraph":
            e = members
        elif cls == "DirectedHypergraph":
            if s < 2:
                continue
            k = rng.randint(1, s - 1)
            e = [members[:k], members[k:]]
        elif cls == "TemporalHypergraph":
            e = [rng.randint(0, 3), members]
        else:
            e = [members, rng.choice(["a", "b", "layer 3"])]
        edges.append(e)
    if edges and rng.random() < 0.2:  # re-add an existing hyperedge, members in another order
        e = rng.choice(edges)
        sh = lambda xs: rng.sample(xs, len(xs))  # noqa: E731
        edges.append(sh(e) if cls == "Hypergraph" else [sh(e[0]), sh(e[1])] if cls == "DirectedHypergraph" else
                     [e[0], sh(e[1])] if cls == "TemporalHypergraph" else [sh(e[0]), e[1]])
    ops = []
    for e in edges:
        w = rng.choice([1, 2, 3, 0.5, 2.5]) if weighted else None
        ops.append(["e", e, w])
    for v in labels:
        if rng.random() < 0.5:
            ops.insert(rng.randint(0, len(ops)), ["n", v])
    return dict(cls=cls, weighted=weighted, ops=ops, labels=kind)


def _has_edge(spec):
    return any(op[0] == "e" for op in spec["ops"])


# ----------------------------------------------------------------------------------------------- edit sequences
# An edit is a list of history steps that leaves the number of nodes and the number of hyperedges unchanged.  The
# functions below write an edit and its inverse for a given state (a Model); `w` gives the weight of an added hyperedge.
def edit_edge_swap(old, new, w=None, add_first=False):
    """Remove one hyperedge, add a different one (in that order, or the addition first)."""
    ops = [["re", old], ["e", new] if w is None else ["e", new, w]]
    return ops[::-1] if add_first else ops


def edit_node_replace(model, v, fresh, w=None):
    """Remove node v (and with it its hyperedges), add the new node `fresh` carrying the same hyperedges."""
    inc = [model.raw[i] for i, ms in model.edges.items() if v in ms[0]]
    return [["rn", v], ["n", fresh]] + [["e", map_edge(model.cls, e, {v: fresh})] + ([] if w is None else [w()])
                                         for e in inc]


def edit_node_swap(model, u, v, w=None):
    """u and v exchange their hyperedges (None when that changes nothing)."""
    f = {u: v, v: u}
    image = {}
    for i, e in model.raw.items():
        e2 = map_edge(model.cls, e, f)
        image[model.ident(e2)[0]] = e2
    gone = [model.raw[i] for i in model.edges if i not in image]
    new = [e2 for i, e2 in image.items() if i not in model.edges]
    if not gone:
        return None
    return [["re", e] for e in gone] + [["e", e] + ([] if w is None else [w()]) for e in new]


def pool_for(cls, n, labels=None):
    """Every hyperedge of the exhaustive scopes above on n nodes, in spec format."""
    lab = labels or list(range(n))
    if cls == "Hypergraph":
        return [[lab[i] for i in c] for s in range(1, min(4, n) + 1) for c in itertools.combinations(range(n), s)]
    if cls == "DirectedHypergraph":
        pool = []
        for assign in itertools.product((0, 1, 2), repeat=n):
            src = [i for i in range(n) if assign[i] == 1]
            tgt = [i for i in range(n) if assign[i] == 2]
            if src and tgt:
                pool.append([src, tgt])
        return pool
    sets = [list(c) for s in range(1, min(3, n) + 1) for c in itertools.combinations(range(n), s)]
    if cls == "TemporalHypergraph":
        return [[t, e] for t in (0, 1) for e in sets]
    return [[e, lay] for lay in ("a", "b") for e in sets]


def seq_edge_swaps(specs, pool):
    """For every hypergraph and every (hyperedge in it, hyperedge of the pool not in it): swap forth (removal first) and
    back (addition first); the sequence that starts from the other hypergraph has the two orders the other way round."""
    for spec in specs:
        es = [op[1] for op in spec["ops"] if op[0] == "e"]
        for old in es:
            for new in pool:
                if new not in es:
                    yield dict(spec, edits=[edit_edge_swap(old, new), edit_edge_swap(new, old, add_first=True)],
                               kind="edge swap")


def seq_node_edits(specs, fresh):
    """For every hypergraph: every node replaced by the new label `fresh` (and back); every two nodes exchanged."""
    for spec in specs:
        m = Model(spec)
        for v in m.nodes:
            there = edit_node_replace(m, v, fresh)
            m2 = Model(dict(spec, ops=spec["ops"] + there))
            yield dict(spec, edits=[there, edit_node_replace(m2, fresh, v)], kind="node replaced")
        for u, v in itertools.combinations(m.nodes, 2):
            there = edit_node_swap(m, u, v)
            if there:
                m2 = Model(dict(spec, ops=spec["ops"] + there))
                yield dict(spec, edits=[there, edit_node_swap(m2, u, v)], kind="two nodes exchanged")


FRESH_STR = ["a", "b", "c", "d", "aa", "B", "z1", "10", "2", "node", "x y", "q", "r7", "Zz", "m", "n n", "k", "0"]


def random_edge(rng, cls, nodes, size):
    """A random hyperedge with `size` distinct nodes, in spec format (None when the class has none of that size)."""
    size = min(size, len(nodes))
    if size < (2 if cls == "DirectedHypergraph" else 1):
        return None
    members = rng.sample(nodes, size)
    if cls == "Hypergraph":
        return members
    if cls == "DirectedHypergraph":
        k = rng.randint(1, size - 1)
        return [members[:k], members[k:]]
    if cls == "TemporalHypergraph":
        return [rng.randint(0, 3), members]
    return [members, rng.choice(["a", "b", "layer 3"])]


def random_edit(rng, model, labels, weighted):
    """One random edit of the state `model` (applied to it), two out of three of them count-preserving; None if none
    was found."""
    cls = model.cls
    w = (lambda: rng.choice([1, 2, 3, 0.5, 2.5])) if weighted else None

    def fresh_label():
        if labels == "str":
            return next(x for x in FRESH_STR if x not in model.nodeset)
        return next(x for x in ([len(model.nodes)] if labels == "0..n-1" else []) + list(range(61, 200))
                    if x not in model.nodeset)

    def new_edges(nodes, k, taken, size=None):
        out = []
        for _ in range(40):
            if len(out) == k:
                break
            e = random_edge(rng, cls, nodes, size or rng.choice([1, 2, 2, 2, 3, 3, 4, 4, 5]))
            if e is not None and model.ident(e)[0] not in taken:
                taken.add(model.ident(e)[0])
                out.append(e)
        return out if len(out) == k else None

    kinds = ["swap same size", "swap", "swap", "move 2", "replace", "replace+rewire", "exchange", "exchange",
             "add edge", "remove edge", "add node", "remove node"]  # the last four change a count
    rng.shuffle(kinds)
    for kind in kinds:
        ops = None
        idents = sorted(model.edges, key=repr)
        if kind in ("swap", "swap same size") and idents:
            i = rng.choice(idents)
            new = new_edges(model.nodes, 1, set(model.edges), model.edges[i][1] if kind == "swap same size" else None)
            if new:
                ops = edit_edge_swap(model.raw[i], new[0], w() if w else None, add_first=rng.random() < 0.5)
        elif kind == "move 2" and len(idents) >= 2:
            gone = rng.sample(idents, 2)
            new = new_edges(model.nodes, 2, set(model.edges))
            if new:
                ops = [["re", model.raw[i]] for i in gone] + [["e", e] + ([w()] if w else []) for e in new]
        elif kind == "replace" and model.nodes:
            ops = edit_node_replace(model, rng.choice(model.nodes), fresh_label(), w)
        elif kind == "replace+rewire" and model.nodes:
            v, f = rng.choice(model.nodes), fresh_label()
            k = sum(1 for ms in model.edges.values() if v in ms[0])
            nodes = [x for x in model.nodes if x != v] + [f]
            new = new_edges(nodes, k, {i for i, ms in model.edges.items() if v not in ms[0]})
            if new is not None:
                ops = [["rn", v], ["n", f]] + [["e", e] + ([w()] if w else []) for e in new]
        elif kind == "exchange" and len(model.nodes) >= 2:
            u, v = rng.sample(model.nodes, 2)
            ops = edit_node_swap(model, u, v, w)
        elif kind == "add edge":
            new = new_edges(model.nodes, 1, set(model.edges))
            if new:
                ops = [["e", new[0]] + ([w()] if w else [])]
        elif kind == "remove edge" and idents:
            ops = [["re", model.raw[rng.choice(idents)]]]
        elif kind == "add node":
            ops = [["n", fresh_label()]]
        elif kind == "remove node" and len(model.nodes) >= 2:
            ops = [["rn", rng.choice(model.nodes)]]
        if ops:
            for op in ops:
                model.apply(op)
            return ops
    return None


def random_seq_spec(rng, cls):
    """A random history followed by 3..6 random edits, one filter per edit (biased to the sizes present)."""
    while True:
        spec = random_spec(rng, cls)
        model = Model(spec)
        if not model.nodes or model.readded:
            continue
        edits, filters = [], []
        for _ in range(rng.randint(3, 6)):
            sizes = sorted({ms[1] for ms in model.edges.values()})
            r = rng.random()
            if r < 0.3 or not sizes:
                flt = None if r < 0.3 else rng.choice(filters_for(5))
            elif r < 0.9:
                sz = rng.choice(sizes)
                flt = ["size", sz] if rng.random() < 0.5 else ["order", sz - 1]
            else:
                flt = rng.choice(filters_for(5))
            ops = random_edit(rng, model, spec["labels"], spec["weighted"])
            if ops is None:
                break
            edits.append(ops)
            filters.append(list(flt) if flt else None)
        if edits:
            return dict(spec, edits=edits, filters=filters, kind="random edits")


# ----------------------------------------------------------------------------------------------- driver
def _work(job):
    specs, filters = job
    rec = Rec()
    for spec in specs:
        (check_seq if "edits" in spec else check_case)(rec, spec, filters)
    return rec


def _run_jobs(ctx, total, specs, filters, chunk=64):
    """filters=None: every spec is an edit sequence carrying its own list of filters."""
    specs = list(specs)
    pairs = 0
    for s in specs:
        ctx.case(s if filters is None else dict(s, filters=len(filters)), nontrivial=_has_edge(s))
        k = len(s["filters"] if filters is None else filters)
        pairs += 2 * k if "edits" in s else k
    ctx.count("(hypergraph, filter) pairs", pairs)
    jobs = [(specs[i:i + chunk], filters) for i in range(0, len(specs), chunk)]
    if NPROC > 1 and len(jobs) > 1:
        with multiprocessing.get_context("fork").Pool(NPROC) as pool:
            for rec in pool.imap(_work, jobs):
                total.merge(rec)
    else:
        for j in jobs:
            total.merge(_work(j))
    return len(specs)


def run(ctx):
    from hv import common
    common.use_repo()
    import hypergraphx.measures.degree  # noqa: F401  (imported before forking)
    import hypergraphx.utils.cc  # noqa: F401
    ctx.rule("case = one history (nodes added first, then distinct hyperedges) x all filters {none, order=k, size=k}; "
             "every node and both call styles (method / module function) are evaluated for every filter; "
             "non-trivial = the hypergraph has at least one hyperedge")
    ctx.rule("random cases: add_node/add_edge histories, 1..7 nodes, 0..6 hyperedges of size 1..5, labels 0..n-1 / "
             "non-contiguous ints / strings, isolated nodes interleaved, weighted or not; 20% re-add an existing "
             "hyperedge (degree keys of such histories are tagged '|re-added hyperedge')")
    ctx.assume("the container's own get_nodes/get_edges agree with the ghost model of the history (checked per case; "
               "disagreeing cases are skipped and counted - that is C01-C04)")
    ctx.assume("size of a directed hyperedge = |source| + |target|; source and target are disjoint in every generated case")
    total = Rec()
    F5, F4 = filters_for(4), filters_for(3)
    q = ctx.quick

    # --- Hypergraph, exhaustive
    n = 0
    for k in (0, 1, 2, 3, 4):
        n += _run_jobs(ctx, total, enum_hypergraphs(k, 4), F5)
    n += _run_jobs(ctx, total, enum_hypergraphs(5, 3 if q else 4), F5)
    ctx.exhaustive_parts.append(
        f"Hypergraph: all labelled hypergraphs on nodes 0..n-1, n<=4 with <=4 hyperedges and n=5 with <={3 if q else 4} "
        f"hyperedges of size 1..4 ({n} hypergraphs) x {len(F5)} filters x every node x 2 call styles")
    n = 0
    for k in (1, 2, 3, 4):
        n += _run_jobs(ctx, total, enum_hypergraphs(k, 3 if q else 4, labels=STR), F5)
    if not q:
        n += _run_jobs(ctx, total, enum_hypergraphs(5, 4, labels=STR), F5)
    ctx.exhaustive_parts.append(f"Hypergraph with string labels: n<=4 with <={3 if q else 4} hyperedges"
                                f"{'' if q else ', n=5 with <=4 hyperedges'} ({n} hypergraphs) x {len(F5)} filters")

    # --- other containers: degrees, exhaustive
    n = 0
    for k in (2, 3):
        n += _run_jobs(ctx, total, enum_directed(k, 3), F5)
    n += _run_jobs(ctx, total, enum_directed(4, 2 if q else 3), F5)
    ctx.exhaustive_parts.append(f"DirectedHypergraph degrees: all on <=3 nodes/<=3 hyperedges and 4 nodes/<="
                                f"{2 if q else 3} hyperedges, disjoint non-empty source/target ({n}) x {len(F5)} filters")
    for cls in ("TemporalHypergraph", "MultiplexHypergraph"):
        n = 0
        for k in (1, 2, 3):
            n += _run_jobs(ctx, total, enum_tagged(cls, k, 3), F4)
        if not q:
            n += _run_jobs(ctx, total, enum_tagged(cls, 4, 3, min_edges=0), F4)
        ctx.exhaustive_parts.append(f"{cls} degrees: all on <={3 if q else 4} nodes, two "
                                    f"{'times' if cls[0] == 'T' else 'layers'}, <=3 hyperedges of size 1..3 ({n}) x "
                                    f"{len(F4)} filters")

    # --- small histories that add their first hyperedge twice (every class)
    n = 0
    for gen in (enum_hypergraphs(3, 2, min_edges=1), enum_directed(3, 2, min_edges=1),
                enum_tagged("TemporalHypergraph", 3, 2, min_edges=1),
                enum_tagged("MultiplexHypergraph", 3, 2, min_edges=1)):
        n += _run_jobs(ctx, total, [with_readd(s) for s in gen], F4)
    ctx.exhaustive_parts.append(f"all four classes: every history on 3 nodes with 1..2 hyperedges followed by a second "
                                f"add_edge of the first hyperedge ({n}) x {len(F4)} filters")

    # --- component-size profiles: every ordered sequence of 2..4 components of sizes 1..4 (nodes inserted in that order), each
    # component one hyperedge or a chain of pairs: selection among several components must not depend on their order
    specs = list(enum_profiles())
    _run_jobs(ctx, total, specs, [None, ("order", 1), ("size", 3)])
    ctx.exhaustive_parts.append(f"Hypergraph component profiles: every ordered sequence of 2..4 components with sizes 1..4, "
                                f"each a single hyperedge or a chain of pairs ({len(specs)}) x 3 filters")

    # --- query -> count-preserving edit -> the same query again on the SAME object
    ctx.rule("edit sequences: one object per case; round k = all queries with filter k, then an edit that keeps the "
             "number of nodes and the number of hyperedges (one hyperedge removed and a different one added; a node "
             "removed and a new one added carrying the same hyperedges - or, random part only, as many new ones; two "
             "nodes exchanged; two hyperedges moved; removal first or addition first), then all queries with the same "
             "filter; the edits alternate forth and back in the exhaustive part, so every filter meets both directions "
             "over the enumeration; in the random part one edit in three instead adds / removes one node or hyperedge; "
             f"clauses evaluated on a state reached by edits are reported under keys ending in '{SEQ}'")
    FS = [None, ("order", 0), ("size", 2), ("order", 2), ("size", 4)] if q else F5  # quick: every size once
    n = 0
    for k, m in ((2, 3), (3, 3), (4, 2 if q else 3)):
        n += _run_jobs(ctx, total, seq_edge_swaps(enum_hypergraphs(k, m, min_edges=1), pool_for("Hypergraph", k)), FS)
    if not q:  # n = 5: no filter and every size 1..4, sizes 2 and 3 through both keywords
        n += _run_jobs(ctx, total, seq_edge_swaps(enum_hypergraphs(5, 2, min_edges=1), pool_for("Hypergraph", 5)),
                       [None, ("order", 0), ("size", 2), ("order", 2), ("size", 4), ("order", 1), ("size", 3)])
    n += _run_jobs(ctx, total, seq_edge_swaps(enum_hypergraphs(3, 2, labels=STR, min_edges=1),
                                              pool_for("Hypergraph", 3, STR)), FS)
    ctx.exhaustive_parts.append(
        f"Hypergraph, same object queried around an edit: every hypergraph on n<=3 nodes with 1..3 hyperedges, n=4 with "
        f"1..{2 if q else 3}{'' if q else ', n=5 with 1..2 (7 filters)'} (and n=3 with 1..2, string labels) x every (hyperedge removed, "
        f"different hyperedge of size 1..4 added) ({n} sequences) x {len(FS)} filters, all queries before and after")
    n = 0
    for k, m in ((1, 1), (2, 3), (3, 3), (4, 2 if q else 3)):
        n += _run_jobs(ctx, total, seq_node_edits(enum_hypergraphs(k, m), k), FS)
    n += _run_jobs(ctx, total, seq_node_edits(enum_hypergraphs(3, 2, labels=STR), "d"), FS)
    ctx.exhaustive_parts.append(
        f"Hypergraph, same object queried around an edit: every hypergraph on n<=3 nodes with <=3 hyperedges, n=4 with "
        f"<={2 if q else 3} (and n=3 with <=2, string labels) x (every node replaced by a new node with the same "
        f"hyperedges; every two nodes exchanged, when that changes a hyperedge) ({n} sequences) x {len(FS)} filters")
    FD = [None, ("order", 1), ("size", 3), ("size", 1)] if q else F4
    for cls, scopes in (("DirectedHypergraph", ((2, 2), (3, 2))),
                        ("TemporalHypergraph", ((2, 2), (3, 1 if q else 2))),
                        ("MultiplexHypergraph", ((2, 2), (3, 1 if q else 2)))):
        enum = (lambda k, m, lo: enum_directed(k, m, min_edges=lo)) if cls[0] == "D" else \
            (lambda k, m, lo, cls=cls: enum_tagged(cls, k, m, min_edges=lo))
        n = 0
        for k, m in scopes:
            n += _run_jobs(ctx, total, seq_edge_swaps(enum(k, m, 1), pool_for(cls, k)), FD)
            n += _run_jobs(ctx, total, seq_node_edits(enum(k, m, 0), k), FD)
        ctx.exhaustive_parts.append(
            f"{cls} degrees, same object queried around an edit: every one on "
            f"{' and '.join(f'{k} nodes with <={m} hyperedges' for k, m in scopes)} x (every hyperedge swapped for "
            f"a different one; every node replaced; every two nodes exchanged) ({n} sequences) x {len(FD)} filters")
    rng = random.Random(ctx.seed * 7919 + 88)
    for cls, cnt in (("Hypergraph", 250 if q else 5000), ("DirectedHypergraph", 80 if q else 1500),
                     ("TemporalHypergraph", 80 if q else 1500), ("MultiplexHypergraph", 80 if q else 1500)):
        _run_jobs(ctx, total, [random_seq_spec(rng, cls) for _ in range(cnt)], None, chunk=16)
        ctx.count(f"random {cls} edit sequences (3..6 edits each)", cnt)

    # --- random histories
    rng = random.Random(ctx.seed * 7919 + 8)
    F6 = filters_for(5)
    for cls, cnt in (("Hypergraph", 600 if q else 12000), ("DirectedHypergraph", 200 if q else 3000),
                     ("TemporalHypergraph", 200 if q else 3000), ("MultiplexHypergraph", 200 if q else 3000)):
        _run_jobs(ctx, total, [random_spec(rng, cls) for _ in range(cnt)], F6)
        ctx.count(f"random {cls} histories", cnt)
    total.into(ctx)


def replay(data):
    from hv import common
    common.use_repo()
    spec = data["spec"]
    flt = data.get("filter")
    rec = Rec()
    if "edits" in spec:  # the whole sequence is re-executed: the failing query depends on the queries before the edit
        filters = [tuple(f) if f else None for f in data.get("filters") or spec.get("filters") or []]
        check_seq(rec, spec, filters)
        where = (f"{spec['cls']} history {spec['ops']} followed by rounds (all queries with filter k; edit k, cyclically; "
                 f"same queries) with edits {spec['edits']} and filters {[list(f) if f else None for f in filters]}")
    else:
        if flt == "all" or "filter" not in data:
            filters = filters_for(5)
        else:
            filters = [tuple(flt) if flt else None]
        check_case(rec, spec, filters)
        where = f"{spec['cls']} history {spec['ops']}, filter {flt}"
    key = data.get("key")
    others = sorted(k for k in rec.fails if k != key)
    also = (f" [other clauses failing on this input: {others}]" if others else "")
    if key is None:
        key = others[0] if others else None
    if key not in rec.fails:
        return True, f"clause '{key}' holds on {where} ({sum(rec.evals.values())} clause evaluations){also}"
    f = rec.fails[key]
    at = (f", {f['input'].get('when')} (state {f['input'].get('state')}), filter {f['input'].get('filter')}"
          if "edits" in spec else "")
    return False, (f"{key}: expected {f['expected']!r}, observed {f['observed']!r} "
                   f"({f['input'].get('call', '')}, node {f['input'].get('node')!r}{at}) on {where}{also}")
