"""C13 - configuration models preserve every node's degree and every hyperedge size (bounded tier).

Functions under contract: hypergraphx.generation.configuration_model.configuration_model (returns ONE Hypergraph) and
hypergraphx.generation.directed_configuration_model.directed_configuration_model (returns ONE DirectedHypergraph).
Both draw from global RNGs (numpy.random resp. random); before EVERY call both `random` and `numpy.random` are seeded
with two values derived (crc32) from VERIF_SEED, the case description and the running seed index, so each call is
reproducible on its own (the replay data carries the two seeds).

Scope (one *case* = one (hypergraph, n_steps, detailed, order/size) combination; it is executed for S seeds, the label
alternating 'edge' / 'stub' with the seed index so that each label gets S/2 seeds; n_steps = 0 draws nothing and gets 2)
-----
Undirected, exhaustive over hypergraphs (hyperedges = non-empty subsets of 0..n-1, singletons included):
  U-A  full cross product n_steps in {0,1,5,50} x detailed in {True,False} x filter in {none, size=k for every size k
       present, order=k-1 for the smallest size present, size = largest size + 1 (no such hyperedge)}:
         quick:    all hypergraphs on <= 3 nodes with 2..4 hyperedges and on <= 4 nodes with 2 hyperedges, S = 30;
         thorough: the same with S = 300, plus all hypergraphs on <= 4 nodes with 3 hyperedges (S = 50) and with 4
                   hyperedges (S = 16).
  U-B  every hypergraph on <= 5 nodes with 2..4 hyperedges (36 425 of them):
         quick:    one combination each, rotating through all (n_steps, detailed, label, filter kind), 2 seeds;
         thorough: all 8 (n_steps, detailed) x {no filter, one rotating filter}, 3 seeds (2 with 4 hyperedges).
Undirected, sampled:
  U-C  60 random hypergraphs on 3..8 nodes with 2..10 hyperedges of size 1..6 (labels 0..n-1 / scattered ints / strings,
       weighted or not, isolated nodes): all (n_steps, detailed) x {none, two sizes present}, S = 30 / 300.
Directed (source/target disjoint, non-empty), exhaustive over hypergraphs on node set 0..n-1:
  D-A  n <= 4 (50 admissible hyperedges): 2 hyperedges S = 30 / 300; 3 hyperedges S = 2 / 30; 4 hyperedges S = 2
       (thorough only);   D-B  n = 5, 2 hyperedges, S = 30 (thorough only).
  D-C  200 / 600 random directed hypergraphs on 2..8 nodes with 2..10 hyperedges of total size 2..6, S = 30 / 300.

Oracle
------
The ghost model is the list of hyperedges the driver built the input from.  Degrees, per-size degrees, size multisets
and shapes of input and output are recounted from plain tuples (output observed through get_edges() only):
  deg_k(v) = #{e : v in e, |e| = k},  deg(v) = #{e : v in e};  in(v) = #{e : v in source(e)}, out(v) = #{e : v in target(e)}.
Clauses (all from the statement):
  * detailed=True:  deg_k(v) of the output <= deg_k(v) of the input for every v, k;
    detailed=False: deg(v) of the output <= deg(v) of the input (only the total degree is claimed);
  * if #hyperedges(output) = #hyperedges(input): equality of the above for every node, and equal multisets of sizes;
  * with size / order: the hyperedges of every other size in the output are exactly those of the input;
  * directed: in(v), out(v) never increase; equal, with equal multiset of (|source|, |target|), when the number of
    hyperedges is preserved;
  * an exception on an admissible input is reported as "does not raise on admissible input" (own key when the cause is
    that no hyperedge has the requested size).

Limits: label='vertex', n_clash, order and size together are outside the statement and not executed.  "All outcomes of
the random choices" is only sampled (S seeds); for n_steps = 1 on the smallest hypergraphs S = 300 very likely covers
every outcome, but this is not established.  Nothing is claimed about hypergraphs on more than 8 nodes.
"""
import contextlib
import itertools
import os
import random
import zlib
from collections import Counter

PROPERTY = "C13"

FU = "generation.configuration_model"
FD = "generation.directed_configuration_model"
RAISES = "does not raise on admissible input"
NSTEPS = (0, 1, 5, 50)
LABELS = ("edge", "stub")


class _Null:
    def write(self, s):
        return len(s)

    def flush(self):
        pass


class Rec:
    """Collects clause evaluations in a worker; merged into ctx by the parent (same semantics as ctx.check)."""

    def __init__(self):
        self.counts, self.fails, self.counters = {}, [], {}
        self._perkey = {}

    def check(self, cond, function, clause, detail=None, key=None, replay=None):
        name = f"{function}:{clause}"
        self.counts[name] = self.counts.get(name, 0) + 1
        if not cond:
            key = key or name
            n = self._perkey.get(key, 0)
            self._perkey[key] = n + 1
            if n < 2:
                d = detail() if detail else {}
                self.fails.append(dict(function=function, clause=clause, input=d.get("input", replay),
                                       expected=d.get("expected"), observed=d.get("observed"), key=key, replay=replay))
        return cond

    def count(self, name, n=1):
        self.counters[name] = self.counters.get(name, 0) + n


def derive_seeds(seed, desc, k):
    a = zlib.crc32(f"{seed}|py|{desc}|{k}".encode())
    b = zlib.crc32(f"{seed}|np|{desc}|{k}".encode())
    return a, b


def _seed_both(seeds):
    import numpy as np
    random.seed(seeds[0])
    np.random.seed(seeds[1] % (2 ** 32))


# ------------------------------------------------------------------------------------------------------- undirected
def check_u(rec, spec):
    """One call of configuration_model on a freshly built Hypergraph; every clause of the undirected half."""
    from hypergraphx import Hypergraph
    from hypergraphx.generation.configuration_model import configuration_model

    ein = [tuple(e) for e in spec["edges"]]
    w = spec.get("weights")
    h = Hypergraph(edge_list=ein, weighted=True, weights=list(w)) if w is not None else Hypergraph(edge_list=ein)
    if spec.get("nodes"):
        h.add_nodes(list(spec["nodes"]))
    size, order = spec.get("size"), spec.get("order")
    k = size if size is not None else (order + 1 if order is not None else None)
    kw = dict(n_steps=spec["n_steps"], label=spec["label"], detailed=spec["detailed"])
    if size is not None:
        kw["size"] = size
    if order is not None:
        kw["order"] = order
    detailed = spec["detailed"]
    _seed_both(spec["seeds"])
    try:
        with contextlib.redirect_stdout(_Null()):
            out = configuration_model(h, **kw)
            eout = [tuple(e) for e in out.get_edges()]
    except Exception as ex:  # noqa
        msg = f"{type(ex).__name__}: {ex}"
        absent = k is not None and not any(len(e) == k for e in ein)
        rec.check(False, FU, RAISES, lambda: dict(observed=msg), replay=spec,
                  key=f"{FU}:{RAISES}" + (" [no hyperedge of the requested size]" if absent else ""))
        return
    rec.check(True, FU, RAISES)
    rec.count("calls of configuration_model")

    if detailed:
        din = Counter((v, len(e)) for e in ein for v in e)
        dout = Counter((v, len(e)) for e in eout for v in set(e))
        c_le = "no node has a higher degree at any size than in the input"
        c_eq = "same number of hyperedges: every node keeps its degree at every size"
    else:
        din = Counter(v for e in ein for v in e)
        dout = Counter(v for e in eout for v in set(e))
        c_le = "detailed=False: no node has a higher total degree than in the input"
        c_eq = "detailed=False, same number of hyperedges: every node keeps its total degree"
    higher = [x for x, c in dout.items() if c > din.get(x, 0)]
    rec.check(not higher, FU, c_le,
              lambda: dict(expected={repr(x): din.get(x, 0) for x in higher}, observed={repr(x): dout[x] for x in higher}),
              replay=spec)
    if len(eout) == len(ein):
        rec.count("calls with the number of hyperedges preserved")
        rec.check(dout == din, FU, c_eq,
                  lambda: dict(expected={repr(x): c for x, c in sorted(din.items(), key=repr)},
                               observed={repr(x): c for x, c in sorted(dout.items(), key=repr)}), replay=spec)
        sin, sout = sorted(len(e) for e in ein), sorted(len(e) for e in eout)
        rec.check(sin == sout, FU, "same number of hyperedges: multiset of hyperedge sizes unchanged",
                  lambda: dict(expected=sin, observed=sout), replay=spec)
    else:
        rec.count("calls where reshuffled hyperedges coincided (fewer hyperedges returned)")
    if k is not None:
        oin = sorted(tuple(sorted(e)) for e in ein if len(e) != k)
        oout = sorted(tuple(sorted(e)) for e in eout if len(e) != k)
        rec.check(oin == oout, FU, "size/order given: hyperedges of every other size are returned intact",
                  lambda: dict(expected=oin, observed=oout), replay=spec)
    if sorted(map(sorted, eout)) != sorted(map(sorted, ein)):
        rec.count("calls whose output differs from the input")


# --------------------------------------------------------------------------------------------------------- directed
def check_d(rec, spec):
    from hypergraphx import DirectedHypergraph
    from hypergraphx.generation.directed_configuration_model import directed_configuration_model

    ein = [(tuple(s), tuple(t)) for s, t in spec["edges"]]
    w = spec.get("weights")
    h = (DirectedHypergraph(edge_list=ein, weighted=True, weights=list(w)) if w is not None
         else DirectedHypergraph(edge_list=ein))
    if spec.get("nodes"):
        h.add_nodes(list(spec["nodes"]))
    _seed_both(spec["seeds"])
    try:
        with contextlib.redirect_stdout(_Null()):
            out = directed_configuration_model(h)
            eout = [(tuple(e[0]), tuple(e[1])) for e in out.get_edges()]
    except Exception as ex:  # noqa
        msg = f"{type(ex).__name__}: {ex}"
        rec.check(False, FD, RAISES, lambda: dict(observed=msg), replay=spec)
        return
    rec.check(True, FD, RAISES)
    rec.count("calls of directed_configuration_model")
    for role, idx, name in (("source", 0, "in"), ("target", 1, "out")):
        din = Counter(v for e in ein for v in e[idx])
        dout = Counter(v for e in eout for v in set(e[idx]))
        higher = [x for x, c in dout.items() if c > din.get(x, 0)]
        rec.check(not higher, FD, f"no {name}-degree (hyperedges with the node as {role}) is higher than in the input",
                  lambda: dict(expected={repr(x): din.get(x, 0) for x in higher},
                               observed={repr(x): dout[x] for x in higher}), replay=spec)
        if len(eout) == len(ein):
            rec.check(dout == din, FD, f"same number of hyperedges: every {name}-degree ({role} count) is preserved",
                      lambda: dict(expected={repr(x): c for x, c in sorted(din.items(), key=repr)},
                                   observed={repr(x): c for x, c in sorted(dout.items(), key=repr)}), replay=spec)
    if len(eout) == len(ein):
        rec.count("directed calls with the number of hyperedges preserved")
        sin = sorted((len(s), len(t)) for s, t in ein)
        sout = sorted((len(s), len(t)) for s, t in eout)
        rec.check(sin == sout, FD, "same number of hyperedges: multiset of (source size, target size) unchanged",
                  lambda: dict(expected=sin, observed=sout), replay=spec)
    else:
        rec.count("directed calls where reshuffled hyperedges coincided")
    if sorted((sorted(s), sorted(t)) for s, t in eout) != sorted((sorted(s), sorted(t)) for s, t in ein):
        rec.count("directed calls whose output differs from the input")


# -------------------------------------------------------------------------------------------------------- job plans
def filters_of(edges):
    """Every filter exercised in the full cross product for this hypergraph: (kind, value)."""
    sizes = sorted({len(e) for e in edges})
    return ([None] + [("size", k) for k in sizes] + [("order", sizes[0] - 1)] + [("size", sizes[-1] + 1)])


def _fdesc(f):
    return "all" if f is None else f"{f[0]}={f[1]}"


def _edesc(edges):
    return ",".join("".join(map(str, e)) if all(isinstance(v, int) and 0 <= v < 10 for v in e) else repr(list(e))
                    for e in edges)


def _ddesc(edges):
    return ",".join(_edesc([s]) + ">" + _edesc([t]) for s, t in edges)


def run_job_u(rec, seed, job):
    """job = dict(edges, weights?, nodes?, combos=[(n_steps, detailed, filter, label0)], S). Returns case descs."""
    cases = []
    base = dict(edges=[list(e) for e in job["edges"]])
    if job.get("weights") is not None:
        base["weights"] = job["weights"]
    if job.get("nodes"):
        base["nodes"] = job["nodes"]
    ed = _edesc(job["edges"]) + ("|w" if job.get("weights") is not None else "") + \
        ("|iso" + repr(job["nodes"]) if job.get("nodes") else "")
    for n_steps, detailed, flt, label0 in job["combos"]:
        desc = f"u|{ed}|ns={n_steps}|{'D' if detailed else 'nd'}|{_fdesc(flt)}"
        ns = job["S"] if n_steps > 0 else min(2, job["S"])
        absent = flt is not None and flt[0] == "size" and not any(len(e) == flt[1] for e in job["edges"])
        if absent:
            ns = min(2, ns)  # raises or returns the input before any random draw
        for k in range(ns):
            spec = dict(base, n_steps=n_steps, detailed=detailed, label=LABELS[(k + label0) % 2],
                        seeds=list(derive_seeds(seed, desc, k)))
            if flt is not None:
                spec[flt[0]] = flt[1]
            check_u(rec, spec)
        cases.append((desc, not absent))
    return cases


def run_job_d(rec, seed, job):
    base = dict(edges=[[list(s), list(t)] for s, t in job["edges"]])
    if job.get("weights") is not None:
        base["weights"] = job["weights"]
    if job.get("nodes"):
        base["nodes"] = job["nodes"]
    desc = "d|" + _ddesc(job["edges"]) + ("|w" if job.get("weights") is not None else "") + \
        ("|iso" + repr(job["nodes"]) if job.get("nodes") else "")
    for k in range(job["S"]):
        check_d(rec, dict(base, seeds=list(derive_seeds(seed, desc, k))))
    return [(desc, True)]


def subsets(n):
    return [c for r in range(1, n + 1) for c in itertools.combinations(range(n), r)]


def admissible_directed(n):
    out = []
    for assign in itertools.product((0, 1, 2), repeat=n):
        s = tuple(i for i in range(n) if assign[i] == 1)
        t = tuple(i for i in range(n) if assign[i] == 2)
        if s and t:
            out.append((s, t))
    out.sort(key=lambda e: (len(e[0]) + len(e[1]), e))
    return out


def full_combos(edges):
    return [(ns, det, f, 0) for ns in NSTEPS for det in (True, False) for f in filters_of(edges)]


ROT = [(ns, det, lab, fk) for ns in NSTEPS for det in (True, False) for lab in (0, 1)
       for fk in ("none", "size-min", "size-max", "order-min", "order-max", "absent")]


def _pick_filter(edges, fk):
    sizes = sorted({len(e) for e in edges})
    return {"none": None, "size-min": ("size", sizes[0]), "size-max": ("size", sizes[-1]),
            "order-min": ("order", sizes[0] - 1), "order-max": ("order", sizes[-1] - 1),
            "absent": ("size", sizes[-1] + 1)}[fk]


def random_u(seed, idx):
    r = random.Random(f"{seed}-c13-u-{idx}")
    n = r.randint(3, 8)
    style = r.choice(("range", "scattered", "strings"))
    labels = (list(range(n)) if style == "range" else r.sample(range(-20, 300), n) if style == "scattered"
              else r.sample(["a", "b", "c", "d", "e", "f", "g", "h", "x1", "x10", "x2", "Z"], n))
    m = r.randint(2, 10)
    edges, seen = [], set()
    for _ in range(m * 4):
        if len(edges) == m:
            break
        z = r.choice((1, 2, 2, 3, 3, 4, 4, 5, 6))
        z = min(z, n)
        e = tuple(sorted(r.sample(labels, z)))
        if e in seen:
            continue
        seen.add(e)
        edges.append(tuple(r.sample(e, len(e))))
    if len(edges) < 2:
        edges = [tuple(labels[:2]), tuple(labels[1:3])]
    job = dict(edges=edges)
    if r.random() < 0.3:
        job["weights"] = [r.choice((1, 2, 0.5, 3.25)) for _ in edges]
    used = {v for e in edges for v in e}
    iso = [v for v in labels if v not in used]
    if iso:
        job["nodes"] = iso
    sizes = sorted({len(e) for e in edges})
    fl = [None] + [("size", k) for k in r.sample(sizes, min(2, len(sizes)))]
    if r.random() < 0.5 and len(fl) > 1:
        fl[-1] = ("order", fl[-1][1] - 1)
    job["combos"] = [(ns, det, f, idx % 2) for ns in NSTEPS for det in (True, False) for f in fl]
    return job


def random_d(seed, idx):
    r = random.Random(f"{seed}-c13-d-{idx}")
    n = r.randint(2, 8)
    style = r.choice(("range", "scattered", "strings"))
    labels = (list(range(n)) if style == "range" else r.sample(range(-20, 300), n) if style == "scattered"
              else r.sample(["a", "b", "c", "d", "e", "f", "g", "h", "x1", "x10", "x2", "Z"], n))
    m = r.randint(2, 10)
    edges, seen = [], set()
    for _ in range(m * 4):
        if len(edges) == m:
            break
        z = min(n, r.choice((2, 2, 3, 3, 4, 4, 5, 6)))
        mem = r.sample(labels, z)
        k = r.randint(1, z - 1)
        key = (frozenset(mem[:k]), frozenset(mem[k:]))
        if key in seen:
            continue
        seen.add(key)
        edges.append((tuple(mem[:k]), tuple(mem[k:])))
    if len(edges) < 2:
        edges = [((labels[0],), (labels[1],)), ((labels[1],), (labels[0],))]
    job = dict(edges=edges)
    if r.random() < 0.3:
        job["weights"] = [r.choice((1, 2, 0.5, 3.25)) for _ in edges]
    used = {v for s, t in edges for v in s + t}
    iso = [v for v in labels if v not in used]
    if iso:
        job["nodes"] = iso
    return job


def plan(ctx):
    """List of (kind, job) in a fixed order, plus the description of the exhaustive parts."""
    q = ctx.quick
    jobs, parts = [], []
    # ---- U-A
    S_A = 30 if q else 300
    s3, s4 = subsets(3), subsets(4)
    seenA = set()
    groupsA = [(s3, (2, 3, 4), S_A), (s4, (2,), S_A)]
    if not q:
        groupsA += [(s4, (3,), 50), (s4, (4,), 16)]
    for subs, ks, S in groupsA:
        for k in ks:
            for combo in itertools.combinations(subs, k):
                if combo in seenA:
                    continue
                seenA.add(combo)
                jobs.append(("u", dict(edges=list(combo), combos=full_combos(combo), S=S)))
    parts.append(f"configuration_model: all hypergraphs on <= 3 nodes with 2..4 hyperedges and on <= 4 nodes with 2 "
                 f"hyperedges x n_steps {{0,1,5,50}} x detailed x every filter (none, each size present, one order, one "
                 f"absent size), {S_A} seeds each (labels alternate)")
    if not q:
        parts.append("configuration_model: all hypergraphs on <= 4 nodes with 3 (50 seeds) and 4 (16 seeds) hyperedges, "
                     "same cross product")
    # ---- U-B
    s5 = subsets(5)
    i = 0
    for k in (2, 3, 4):
        for combo in itertools.combinations(s5, k):
            if q:
                ns, det, lab, fk = ROT[i % len(ROT)]
                combos = [(ns, det, _pick_filter(combo, fk), lab)]
                S = 2
            else:
                fk = ("size-min", "size-max", "order-min", "order-max", "absent")[i % 5]
                combos = [(ns, det, f, i % 2) for ns in NSTEPS for det in (True, False)
                          for f in (None, _pick_filter(combo, fk))]
                S = 3 if k < 4 else 2
            jobs.append(("u", dict(edges=list(combo), combos=combos, S=S)))
            i += 1
    parts.append("configuration_model: every hypergraph on <= 5 nodes with 2..4 hyperedges (36425), " +
                 ("one rotating (n_steps, detailed, label, filter) combination, 2 seeds" if q else
                  "all (n_steps, detailed) x {no filter, one rotating filter}, 3 seeds (2 for 4 hyperedges)"))
    # ---- U-C
    for idx in range(60):
        job = random_u(ctx.seed, idx)
        job["S"] = S_A
        jobs.append(("u", job))
    # ---- D-A / D-B
    d4 = admissible_directed(4)
    for k, S in ((2, S_A), (3, 2 if q else 30)) + (() if q else ((4, 2),)):
        for combo in itertools.combinations(d4, k):
            jobs.append(("d", dict(edges=list(combo), nodes=[0, 1, 2, 3], S=S)))
    parts.append("directed_configuration_model: all directed hypergraphs on node set 0..3 with 2 hyperedges "
                 f"({S_A} seeds), 3 hyperedges ({2 if q else 30} seeds)" + ("" if q else ", 4 hyperedges (2 seeds)"))
    if not q:
        for combo in itertools.combinations(admissible_directed(5), 2):
            jobs.append(("d", dict(edges=list(combo), nodes=[0, 1, 2, 3, 4], S=30)))
        parts.append("directed_configuration_model: all directed hypergraphs on node set 0..4 with 2 hyperedges (30 seeds)")
    # ---- D-C
    for idx in range(200 if q else 600):
        job = random_d(ctx.seed, idx)
        job["S"] = S_A
        jobs.append(("d", job))
    return jobs, parts


def _cost(kind, job):
    if kind == "d":
        return job["S"] * (14 + 3 * len(job["edges"]))
    c = 0
    for ns, det, f, _ in job["combos"]:
        c += (job["S"] if ns else 2) * (3 + 2.4 * ns)
    return c


_JOBS = None
_SEED = 0


def _work(rng):
    lo, hi = rng
    rec = Rec()
    cases = []
    for kind, job in _JOBS[lo:hi]:
        cases += (run_job_u if kind == "u" else run_job_d)(rec, _SEED, job)
    return cases, rec.counts, rec.fails, rec.counters


def run(ctx):
    global _JOBS, _SEED
    import multiprocessing as mp
    import numpy  # noqa: F401
    import hypergraphx.generation.configuration_model  # noqa: F401  (import before forking)
    import hypergraphx.generation.directed_configuration_model  # noqa: F401

    ctx.rule("one case = (hypergraph, n_steps, detailed, order/size filter) resp. one directed hypergraph; each case is "
             "executed for S seeds (30 quick / 300 thorough on the core scopes, fewer on the wide ones, see "
             "exhaustive_parts) with random and numpy.random re-seeded before every call and the label alternating "
             "edge/stub with the seed index. Hypergraphs: exhaustive small scopes, then random ones up to 8 nodes / 10 "
             "hyperedges (sizes 1..6 undirected, 2..6 directed; int, scattered-int and string labels; weighted; isolated "
             "nodes). Non-trivial = every case except those asking for a size no hyperedge has.")
    ctx.assume("degrees of input and output are recounted from get_edges() tuples; a hyperedge is taken as the set of its nodes, its size as len()")
    ctx.assume("only S seeds per case are drawn; 'all outcomes of the random choices' is sampled, not enumerated")
    ctx.assume("global RNG seeds are crc32(VERIF_SEED, case description, seed index); n_steps=0 and absent-size calls draw nothing and get 2 seeds")

    jobs, parts = plan(ctx)
    _JOBS, _SEED = jobs, ctx.seed
    # chunks of roughly equal estimated cost, in job order (deterministic; merged in order)
    costs = [_cost(k, j) for k, j in jobs]
    total = sum(costs)
    nproc = max(1, min(16, os.cpu_count() or 1))
    target = total / (nproc * 24)
    chunks, lo, acc = [], 0, 0.0
    for i, c in enumerate(costs):
        acc += c
        if acc >= target:
            chunks.append((lo, i + 1))
            lo, acc = i + 1, 0.0
    if lo < len(jobs):
        chunks.append((lo, len(jobs)))
    with mp.get_context("fork").Pool(nproc) as pool:
        results = pool.map(_work, chunks, chunksize=1)
    perkey = {}
    for cases, counts, fails, counters in results:
        for desc, nontrivial in cases:
            ctx.case(desc, nontrivial=nontrivial)
        for name, n in counts.items():
            ctx.contract_evals[name] = ctx.contract_evals.get(name, 0) + n
        for name, n in counters.items():
            ctx.count(name, n)
        for f in fails:  # at most 3 examples per kind, so that one frequent kind cannot crowd out the others
            perkey[f["key"]] = perkey.get(f["key"], 0) + 1
            if perkey[f["key"]] <= 3:
                ctx.fail(f["function"], f["clause"], f["input"], f["expected"], f["observed"], f["key"], f["replay"])
    ctx.count("hypergraph jobs (undirected)", sum(1 for k, _ in jobs if k == "u"))
    ctx.count("hypergraph jobs (directed)", sum(1 for k, _ in jobs if k == "d"))
    ctx.exhaustive_parts.extend(parts)
    _JOBS = None


def replay(data):
    rec = Rec()
    if "n_steps" in data:
        check_u(rec, data)
    else:
        check_d(rec, data)
    if not rec.fails:
        return True, f"all {sum(rec.counts.values())} clause evaluations hold for this call (seeds {data.get('seeds')})"
    f = rec.fails[0]
    return False, f"{f['key']}: expected={f['expected']} observed={f['observed']} on {f['input']}"
