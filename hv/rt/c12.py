"""C12 - directed measures follow their definitions; exact <= strong <= weak reciprocity (bounded tier).

Scope
-----
Exhaustive (every input of the stated space is executed):
  * quick:    every DirectedHypergraph with node set {0..n-1}, n <= 4, whose hyperedge set is any set of <= 3 distinct
              admissible hyperedges (source, target disjoint and non-empty, total size 2..n; 2 / 12 / 50 admissible
              hyperedges for n = 2 / 3 / 4), plus n = 5 (180 admissible hyperedges, sizes 2..5) with <= 2 hyperedges;
  * thorough: n <= 4 with <= 4 hyperedges and n = 5 with <= 3 hyperedges.
  All n nodes are added explicitly, so nodes outside every hyperedge are present as isolated nodes.
Sampled (seeded, deterministic given VERIF_SEED):
  * n = 5 with exactly 4 hyperedges (and exactly 3 in the quick tier),
  * random hypergraphs on 2..6 nodes with 0..8 hyperedges of total size 2..6, labels 0..n-1 / scattered (also negative)
    ints / strings, sources and targets handed over in random order, weighted and unweighted, extra isolated nodes,
    and three kinds of history: constructor only; constructor + remove_edge of one hyperedge; constructor (or add_edge)
    receiving a hyperedge that is already present (re-insertion).  A wrong degree after a re-insertion is reported
    under one key of its own (common to the four degree functions), because it has a different cause than a wrong
    degree on a plainly constructed hypergraph.
Query - edit - query again on the SAME object (every measure above is a function of the hypergraph's current content,
so the definitions must also hold when the same object has been asked before and edited since):
  * exhaustive: every hypergraph of the enumeration with node set {0..n-1} and 1..k hyperedges x every replacement of
    one hyperedge e (remove_edge) by a hyperedge f that is absent (add_edge) - which keeps the number of nodes and
    of hyperedges.  quick: n = 2, 3 with k <= 3 and n = 4 with k = 1, f any absent admissible hyperedge; n = 4 with
    k <= 2, f = the reverse of e (also keeps the size of every hyperedge and the node set of e).  thorough: n <= 3 with
    k <= 4 and n = 4 with k <= 2, any f; n = 4 with k <= 3 and n = 5 with k <= 2, f = reverse of e;
  * sampled: random construction histories as above (without re-insertion) followed by 1..3 edit rounds on nodes that
    are already there - replace a hyperedge by its reverse, by a fresh one, two by two fresh ones (insertions before
    or after the removals), and, less often, only add / only remove one hyperedge (3000 quick / 40000 thorough).
  All clauses are evaluated before the first edit and again after every round, with the same filters and bounds,
  against the ghost set at that point.  Evaluations after an edit are recorded under their own clause names
  ("... - asked again on the same object after an edit"): a failure there with the plain clause holding means a
  result that does not follow the edit (e.g. memoised on the node / hyperedge counts).
On every such hypergraph: every node, every filter in {none, size=1..7, order=0..6} (exhaustive part: size=1..n+1,
order=0..n), every bound max_hyperedge_size in 2..6 - which includes bounds below the largest hyperedge - and for the
signature also the default bound None (documented as "the largest hyperedge size"; skipped on the empty hypergraph).

Oracle
------
The ghost model is the set of (frozenset source, frozenset target) pairs that the driver itself inserted (and did not
remove).  Everything is recomputed from that set by literal set comprehensions / quantifiers taken from the statement:
  in_degree(v)  = #{e : v in source(e), filter(|e|)}          (the statement assigns "source" to in_, "target" to out_)
  out_degree(v) = #{e : v in target(e), filter(|e|)}
  signature[(a-1)*(B-1)+(b-1)] = #{e : |source| = a, |target| = b, a+b <= B};  sum = #{e : |e| <= B}
  exact(s)  = #{e, |e|=s : (target(e), source(e)) is a hyperedge} / #{e : |e| = s}
  strong(s) = #{e, |e|=s : for all u in source(e) exists t in target(e), f : t in source(f), u in target(f)} / ...
  weak(s)   = #{e, |e|=s : exists  u in source(e), t in target(e), f : t in source(f), u in target(f)} / ...
The implementation is observed only through hypergraphx.measures.directed.* return values and DirectedHypergraph's
public constructor / add_nodes / add_edge / remove_edge / get_nodes.  Edits never insert a hyperedge that is present at
that moment (a hyperedge removed in an earlier round may come back).

Readings / limits
-----------------
  * "reached from its targets" is read as reached through ONE hyperedge (t in source(f), u in target(f)); only under
    this reading is the stated chain exact <= strong <= weak true at all.
  * The statement does not say whether the witnessing hyperedge f of strong / weak has to respect the bound.  Both
    readings (f among the hyperedges of total size <= bound; f any hyperedge) are computed; when they differ (only
    possible for bounds below the largest hyperedge) either value is accepted.  The count of such cases is reported.
  * The flattened layout of the signature (row = source size, column = target size, (B-1)^2 cells) is taken from the
    function's docstring example; the statement only says "indexed by (source size, target size)".
  * order and size given together (rejected by the code) and bounds < 2 are outside the quantifier: not executed.
  * Nothing here is a proof; hypergraphs on > 6 nodes or hyperedges larger than 6 are not explored.
"""
import itertools
import os
import random

PROPERTY = "C12"

M = "measures.directed."
RAISES = "does not raise on admissible input"
AGAIN = " - asked again on the same object after an edit"
REKEY_DEG = "measures.directed.in_degree/out_degree(_sequence):a re-inserted hyperedge is counted once"
BOUNDS = (2, 3, 4, 5, 6)
TOL = 1e-9


# --------------------------------------------------------------------------------------------- recorder (per worker)
class Rec:
    """Collects clause evaluations in a worker; merged into ctx by the parent (same semantics as ctx.check)."""

    def __init__(self):
        self.counts, self.fails, self.counters = {}, [], {}
        self.reinserted = False
        self.replay = None
        self._perkey = {}

    def check(self, cond, function, clause, detail=None, key=None, rekey=None):
        """detail: zero-argument callable giving dict(input=, expected=, observed=); only evaluated on failure.
        rekey: key to use instead when the history re-inserted a hyperedge (a different cause)."""
        name = f"{function}:{clause}"
        self.counts[name] = self.counts.get(name, 0) + 1
        if not cond:
            key = key or name
            if self.reinserted and rekey:
                key = rekey
            n = self._perkey.get(key, 0)
            self._perkey[key] = n + 1
            if n < 2:
                d = detail() if detail else {}
                self.fails.append(dict(function=function, clause=clause, input=d.get("input"),
                                       expected=d.get("expected"), observed=d.get("observed"), key=key,
                                       replay=self.replay))
        return cond

    def count(self, name, n=1):
        self.counters[name] = self.counters.get(name, 0) + n


# ----------------------------------------------------------------------------------------------------- model / build
def admissible_edges(n):
    """All (source, target) with disjoint non-empty parts over nodes 0..n-1, as sorted tuples."""
    out = []
    for assign in itertools.product((0, 1, 2), repeat=n):
        s = tuple(i for i in range(n) if assign[i] == 1)
        t = tuple(i for i in range(n) if assign[i] == 2)
        if s and t:
            out.append((s, t))
    out.sort(key=lambda e: (len(e[0]) + len(e[1]), e))
    return out


def _fz(s, t):
    return (frozenset(s), frozenset(t))


def _apply_model(edges, op):
    """Apply one op to the ghost set; True when it inserts a hyperedge that is already there."""
    e = _fz(op[1], op[2])
    if op[0] == "add":
        again = e in edges
        edges.add(e)
        return again
    edges.discard(e)
    return False


def model_stages(spec):
    """Ghost model at every point where the object is queried: after the construction history (stage 0) and after
    every round of spec['edits'] (stage 1, 2, ...).  Each entry: (set of (frozenset src, frozenset tgt), set of nodes
    the driver put in and that the hypergraph must therefore list).  Second result: was a hyperedge re-inserted?"""
    edges, base, reins = set(), set(spec.get("nodes") or []), False
    for s, t in spec["edges"]:
        reins |= _apply_model(edges, ["add", s, t])
    for op in spec.get("ops") or []:
        reins |= _apply_model(edges, op)

    def snap():
        nodes = set(base)
        for s, t in edges:
            nodes |= s | t
        return set(edges), nodes

    stages = [snap()]
    for rnd in spec.get("edits") or []:
        for op in rnd:
            reins |= _apply_model(edges, op)
        stages.append(snap())
    return stages, reins


def model_of(spec):
    """Final ghost model: (set of (frozenset src, frozenset tgt), set of nodes the driver put in, re-inserted?)."""
    stages, reins = model_stages(spec)
    return stages[-1][0], stages[-1][1], reins


def apply_ops(h, ops, weighted):
    for op in ops:
        e = (tuple(op[1]), tuple(op[2]))
        if op[0] == "add":
            if weighted:
                h.add_edge(e, weight=op[3])
            else:
                h.add_edge(e)
        else:
            h.remove_edge(e)


def build(spec):
    """The object after the construction history (constructor, add_nodes, spec['ops']); spec['edits'] not applied."""
    from hypergraphx import DirectedHypergraph
    edges = [(tuple(s), tuple(t)) for s, t in spec["edges"]]
    w = spec.get("weights")
    if w is not None:
        h = DirectedHypergraph(edge_list=edges, weighted=True, weights=list(w))
    else:
        h = DirectedHypergraph(edge_list=edges)
    if spec.get("nodes"):
        h.add_nodes(list(spec["nodes"]))
    apply_ops(h, spec.get("ops") or [], w is not None)
    return h


def _match(flt, size):
    if flt is None:
        return True
    kind, k = flt
    return size == k if kind == "size" else size - 1 == k


def _kw(flt):
    return {} if flt is None else {flt[0]: flt[1]}


def _num(x):
    return isinstance(x, (int, float)) and not isinstance(x, bool) or type(x).__module__ == "numpy"


def _close(o, e):
    try:
        return abs(float(o) - e) <= TOL * max(1.0, abs(e))
    except Exception:
        return False


# ----------------------------------------------------------------------------------------------------------- checks
def check_spec(rec, spec, filters):
    """Evaluate every clause of C12 on the hypergraph described by spec: once after its construction history and, on
    the SAME object, once more after every round of spec['edits'] (same filters, same bounds)."""
    stages, _ = model_stages(spec)
    h = build(spec)
    evaluate(rec, h, spec, stages[0], filters, 0)
    for i, rnd in enumerate(spec.get("edits") or [], 1):
        apply_ops(h, rnd, spec.get("weights") is not None)
        rec.count("query rounds on an already queried object after an edit")
        evaluate(rec, h, spec, stages[i], filters, i)


def evaluate(rec, h, spec, model, filters, stage):
    """All clauses on the object h whose expected content is model = (hyperedge set, node set).  stage > 0: h has
    been queried before and edited since; those evaluations are recorded under clause names ending in AGAIN."""
    import hypergraphx.measures.directed as md

    edges, mnodes = model
    sfx = AGAIN if stage else ""
    if stage:
        spec = dict(spec, queried_after_edit_round=stage)  # only used for reporting
    nodes = list(h.get_nodes())
    sized = [(s, t, len(s) + len(t)) for s, t in edges]
    maxsize = max((z for _, _, z in sized), default=0)
    _check = rec.check

    class _R:  # the recorder seen by the clauses below: appends the stage suffix to the clause name
        count = staticmethod(rec.count)

        @staticmethod
        def check(cond, function, clause, detail=None, key=None, rekey=None):
            return _check(cond, function, clause + sfx, detail, key, rekey)

    rec = _R

    def call(fname, *a, **kw):
        try:
            return True, getattr(md, fname)(h, *a, **kw)
        except Exception as ex:  # noqa
            msg = f"{type(ex).__name__}: {ex}"
            rec.check(False, M + fname, RAISES, lambda: dict(input=dict(spec=spec, args=list(a), kwargs=kw), observed=msg))
            return False, None

    # ---- degrees
    rec.check(len(set(nodes)) == len(nodes) and mnodes <= set(nodes), "DirectedHypergraph.get_nodes",
              "every inserted node is a node, once",
              lambda: dict(input=spec, expected=sorted(mnodes, key=repr), observed=nodes))
    for flt in filters:
        kw = _kw(flt)
        exp_in = {v: 0 for v in nodes}
        exp_out = {v: 0 for v in nodes}
        for s, t, z in sized:
            if _match(flt, z):
                for v in s:
                    exp_in[v] = exp_in.get(v, 0) + 1
                for v in t:
                    exp_out[v] = exp_out.get(v, 0) + 1
        for fname, seqname, exp, role in (("in_degree", "in_degree_sequence", exp_in, "source"),
                                          ("out_degree", "out_degree_sequence", exp_out, "target")):
            for v in nodes:
                ok, got = call(fname, v, **kw)
                if ok:
                    rec.check(got == exp[v], M + fname, f"counts the hyperedges with the node as {role} (filtered)",
                              lambda: dict(input=dict(spec=spec, node=v, filter=kw), expected=exp[v], observed=got),
                              rekey=REKEY_DEG)
            ok, seq = call(seqname, **kw)
            if ok:
                good = isinstance(seq, dict)
                rec.check(good and len(seq) == len(nodes) and set(seq) == set(nodes), M + seqname,
                          "lists every node once",
                          lambda: dict(input=dict(spec=spec, filter=kw), expected=nodes,
                                       observed=list(seq) if good else repr(seq)))
                if good:
                    bad = [v for v in nodes if v in seq and seq[v] != exp[v]]
                    rec.check(not bad, M + seqname, f"values are the {role} counts (filtered)",
                              lambda: dict(input=dict(spec=spec, filter=kw), expected={repr(v): exp[v] for v in bad},
                                           observed={repr(v): seq[v] for v in bad}), rekey=REKEY_DEG)

    # ---- signature
    fsig = M + "hyperedge_signature_vector"
    for B in BOUNDS + (None,):
        if B is None and not edges:
            continue
        Be = maxsize if B is None else B
        ok, vec = call("hyperedge_signature_vector", B)
        if not ok:
            continue
        if B is not None and B < maxsize:
            rec.count("signature evaluations with bound below the largest hyperedge")
        try:
            got = [float(x) for x in vec]
        except Exception:
            got = None
        exp = [0] * ((Be - 1) * (Be - 1))
        for s, t, z in sized:
            if z <= Be:
                exp[(len(s) - 1) * (Be - 1) + (len(t) - 1)] += 1
        inp = dict(spec=spec, max_hyperedge_size=B)
        rec.check(got is not None and len(got) == len(exp) and all(g == e for g, e in zip(got, exp)), fsig,
                  "cell (a, b) counts the hyperedges of shape (a, b) with total size <= bound",
                  lambda: dict(input=inp, expected=exp, observed=got if got is not None else repr(vec)))
        if got is not None:
            nb = sum(1 for _, _, z in sized if z <= Be)
            rec.check(_close(sum(got), nb), fsig, "cells sum to the number of hyperedges with total size <= bound",
                      lambda: dict(input=inp, expected=nb, observed=sum(got)))

    # ---- reciprocity
    pairs_all = {(i, j) for s, t, _ in sized for i in s for j in t}
    for B in BOUNDS:
        pairs_b = pairs_all if B >= maxsize else {(i, j) for s, t, z in sized if z <= B for i in s for j in t}
        if B < maxsize:
            rec.count("reciprocity evaluations with bound below the largest hyperedge")
        res = {}
        for fname in ("exact_reciprocity", "strong_reciprocity", "weak_reciprocity"):
            ok, r = call(fname, B)
            if ok:
                res[fname] = r
        inp = dict(spec=spec, max_hyperedge_size=B)
        expd = {}
        for z in range(2, B + 1):
            es = [(s, t) for s, t, zz in sized if zz == z]
            tot = len(es)
            if not tot:
                expd[z] = (0, (0.0,), (0.0,), (0.0,))
                continue
            ex = sum(1 for s, t in es if (t, s) in edges)
            st_b = sum(1 for s, t in es if all(any((j, i) in pairs_b for j in t) for i in s))
            wk_b = sum(1 for s, t in es if any((j, i) in pairs_b for i in s for j in t))
            if pairs_b is pairs_all:
                st_a, wk_a = st_b, wk_b
            else:
                st_a = sum(1 for s, t in es if all(any((j, i) in pairs_all for j in t) for i in s))
                wk_a = sum(1 for s, t in es if any((j, i) in pairs_all for i in s for j in t))
                if st_a != st_b or wk_a != wk_b:
                    rec.count("sizes where the bounded and unbounded reading of strong/weak differ (either accepted)")
            expd[z] = (tot, (ex / tot,), (st_b / tot, st_a / tot), (wk_b / tot, wk_a / tot))
        for col, fname in ((1, "exact_reciprocity"), (2, "strong_reciprocity"), (3, "weak_reciprocity")):
            if fname not in res:
                continue
            r = res[fname]
            fn = M + fname
            isd = isinstance(r, dict)
            rec.check(isd and all(z in r and _num(r[z]) for z in range(2, B + 1)), fn,
                      "gives a ratio for every size 2..bound",
                      lambda: dict(input=inp, observed=repr(r) if not isd else sorted(r, key=repr)))
            if not isd:
                del res[fname]
                continue
            for z in range(2, B + 1):
                if z not in r or not _num(r[z]):
                    continue
                o = r[z]
                e = expd[z][col]
                rec.check(_close(o, e[0]) or _close(o, e[-1]), fn,
                          "ratio = fraction of the hyperedges of that size satisfying the definition",
                          lambda: dict(input=dict(inp, size=z), expected=list(e), observed=o))
                rec.check(-TOL <= o <= 1 + TOL, fn, "ratio lies in [0, 1]",
                          lambda: dict(input=dict(inp, size=z), observed=o))
                if expd[z][0] == 0:
                    rec.check(o == 0, fn, "a size without hyperedges gives 0",
                              lambda: dict(input=dict(inp, size=z), expected=0, observed=o))
        e_, s_, w_ = (res.get("exact_reciprocity"), res.get("strong_reciprocity"), res.get("weak_reciprocity"))
        for z in range(2, B + 1):
            try:
                if e_ is not None and s_ is not None:
                    rec.check(e_[z] <= s_[z] + TOL, M + "strong_reciprocity", "exact <= strong",
                              lambda: dict(input=dict(inp, size=z), expected=f">= {e_[z]}", observed=s_[z]))
                if s_ is not None and w_ is not None:
                    rec.check(s_[z] <= w_[z] + TOL, M + "weak_reciprocity", "strong <= weak",
                              lambda: dict(input=dict(inp, size=z), expected=f">= {s_[z]}", observed=w_[z]))
            except (KeyError, TypeError):
                pass  # already reported by "gives a ratio for every size 2..bound"


def run_spec(rec, spec, filters):
    """check_spec, never letting an exception of the code under test (constructor / history) escape."""
    rec.reinserted = model_of(spec)[2]
    rec.replay = dict(spec=spec)
    try:
        check_spec(rec, spec, filters)
    except Exception as ex:  # constructor / add_edge / remove_edge / get_nodes raised
        msg = f"{type(ex).__name__}: {ex}"
        rec.check(False, "DirectedHypergraph", RAISES, lambda: dict(input=spec, observed=msg),
                  key="DirectedHypergraph:building the input raised")
    rec.reinserted = False


FILTERS_FULL = [None] + [("size", k) for k in range(1, 8)] + [("order", k) for k in range(0, 7)]


def filters_for(n):
    return [None] + [("size", k) for k in range(1, n + 2)] + [("order", k) for k in range(0, n + 1)]


# ------------------------------------------------------------------------------------------------- case generation
def _desc_enum(n, combo):
    return f"n={n}|" + "|".join("".join(map(str, s)) + ">" + "".join(map(str, t)) for s, t in combo)


def _spec_enum(n, combo):
    return dict(nodes=list(range(n)), edges=[[list(s), list(t)] for s, t in combo])


def random_spec(seed, idx, force=None):
    """One random history; deterministic in (seed, idx)."""
    r = random.Random(f"{seed}-c12-{idx}")
    if force is not None:  # n = 5, exactly `force` hyperedges, plain history
        combo = r.sample(admissible_edges(5), force)
        return _spec_enum(5, sorted(combo))
    n = r.randint(2, 6)
    style = r.choice(("range", "scattered", "strings", "range"))
    if style == "range":
        labels = list(range(n))
    elif style == "scattered":
        labels = r.sample(range(-20, 200), n)
    else:
        labels = r.sample(["a", "b", "c", "d", "e", "f", "g", "h", "x1", "x10", "x2", "Z"], n)
    m = r.choice((0, 1, 2, 2, 3, 3, 4, 5, 6, 8))
    edges, seen = [], set()
    for _ in range(m * 3):
        if len(edges) == m:
            break
        z = r.randint(2, min(6, n))
        if r.random() < 0.35:
            z = min(6, n)
        mem = r.sample(labels, z)
        k = r.randint(1, z - 1)
        s, t = mem[:k], mem[k:]
        if _fz(s, t) in seen:
            continue
        seen.add(_fz(s, t))
        edges.append([s, t])
    weighted = r.random() < 0.3
    spec = dict(edges=edges)
    if weighted:
        spec["weights"] = [r.choice((1, 2, 0.5, 3.25)) for _ in edges]
    extra = [x for x in labels if r.random() < 0.3]
    if extra:
        spec["nodes"] = extra
    hist = r.random()
    if edges and hist < 0.15:  # remove one hyperedge again
        s, t = r.choice(edges)
        spec["ops"] = [["remove", r.sample(s, len(s)), r.sample(t, len(t))]]
    elif edges and hist < 0.30:  # re-insert through add_edge (nodes handed over in another order)
        s, t = r.choice(edges)
        spec["ops"] = [["add", r.sample(s, len(s)), r.sample(t, len(t)), 1]]
    elif edges and hist < 0.38:  # the constructor's list contains one hyperedge twice
        j = r.randrange(len(edges))
        s, t = edges[j]
        spec["edges"] = edges + [[r.sample(s, len(s)), r.sample(t, len(t))]]
        if weighted:
            spec["weights"] = spec["weights"] + [2]
    return spec


def _fresh_edge(r, labels, present, zmax=6):
    """A random admissible hyperedge over `labels` that is not in `present` (None if none was found)."""
    for _ in range(20):
        z = r.randint(2, min(zmax, len(labels)))
        mem = r.sample(labels, z)
        k = r.randint(1, z - 1)
        if _fz(mem[:k], mem[k:]) not in present:
            return mem[:k], mem[k:]
    return None


def random_edit_spec(seed, idx):
    """A random construction history (no re-insertion) followed by 1..3 edit rounds on nodes that are already there;
    after every round the object is queried again.  Most rounds keep the number of nodes and of hyperedges (replace a
    hyperedge by its reverse / by another one / two by two others); some only add or only remove one hyperedge.
    Deterministic in (seed, idx)."""
    r = random.Random(f"{seed}-c12-edit-{idx}")
    spec = None
    for j in range(50):
        spec = random_spec(seed, f"e{idx}.{j}")
        m_edges, _, m_reins = model_of(spec)
        if m_edges and not m_reins:
            break
    else:  # practically unreachable; keeps the function total
        spec = dict(edges=[[[0], [1]]])
    cur, nodes, _ = model_of(spec)
    cur = set(cur)
    labels = sorted(nodes, key=repr)
    for s, t in spec["edges"]:  # nodes of a removed hyperedge stay available as labels
        labels += [x for x in list(s) + list(t) if x not in labels]
    wt = lambda: r.choice((1, 2, 0.5, 3.25))  # noqa: E731
    rounds = []
    for _ in range(r.choice((1, 1, 2, 3))):
        kind = r.choice(("reverse", "reverse", "replace", "replace", "replace", "two", "grow", "shrink"))
        ops = []
        lst = sorted(cur, key=lambda e: (sorted(map(repr, e[0])), sorted(map(repr, e[1]))))
        if kind == "reverse":
            cand = [e for e in lst if (e[1], e[0]) not in cur]
            if cand:
                s, t = r.choice(cand)
                ops = [["remove", r.sample(sorted(s, key=repr), len(s)), r.sample(sorted(t, key=repr), len(t))],
                       ["add", sorted(t, key=repr), sorted(s, key=repr), wt()]]
        elif kind in ("replace", "two") and lst:
            k = min(len(lst), 2 if kind == "two" else 1)
            out = r.sample(lst, k)
            present = set(cur)
            for s, t in out:
                f = _fresh_edge(r, labels, present)
                if f is None:
                    continue
                present.add(_fz(*f))
                ops.append(["remove", sorted(s, key=repr), sorted(t, key=repr)])
                ops.append(["add", f[0], f[1], wt()])
            if r.random() < 0.5:  # all insertions first, then the removals
                ops.sort(key=lambda op: op[0] != "add")
        elif kind == "grow":
            f = _fresh_edge(r, labels, cur)
            if f is not None:
                ops = [["add", f[0], f[1], wt()]]
        elif kind == "shrink" and lst:
            s, t = r.choice(lst)
            ops = [["remove", sorted(s, key=repr), sorted(t, key=repr)]]
        if not ops:
            continue
        for op in ops:
            _apply_model(cur, op)
        rounds.append(ops)
    spec["edits"] = rounds
    return spec


def _keeps_counts(rnd):
    return sum(1 if op[0] == "add" else -1 for op in rnd) == 0


def _work(task):
    rec = Rec()
    cases = []
    if task[0] == "enum":
        _, n, k, first = task
        E = admissible_edges(n)
        flt = filters_for(n)
        if k == 0:
            combos = [()]
        else:
            combos = ((E[first],) + rest for rest in itertools.combinations(E[first + 1:], k - 1))
        for combo in combos:
            run_spec(rec, _spec_enum(n, combo), flt)
            cases.append((_desc_enum(n, combo), len(combo) > 0))
    elif task[0] == "editenum":
        # every hypergraph of the enumeration with k >= 1 hyperedges x every replacement of one hyperedge e by an
        # admissible hyperedge f that is absent (mode "all") or by the reverse of e if absent (mode "reverse")
        _, n, k, first, mode = task
        E = admissible_edges(n)
        flt = filters_for(n)
        for rest in itertools.combinations(E[first + 1:], k - 1):
            combo = (E[first],) + rest
            for e in combo:
                for f in (E if mode == "all" else [(e[1], e[0])]):
                    if f in combo:
                        continue
                    spec = _spec_enum(n, combo)
                    spec["edits"] = [[["remove", list(e[0]), list(e[1])], ["add", list(f[0]), list(f[1]), 1]]]
                    run_spec(rec, spec, flt)
                    cases.append((_desc_enum(n, combo) + "|edit:-" + _desc_enum(n, [e])[4:] + "+" + _desc_enum(n, [f])[4:], True))
    elif task[0] == "randedit":
        _, seed, lo, hi = task
        for idx in range(lo, hi):
            spec = random_edit_spec(seed, idx)
            run_spec(rec, spec, FILTERS_FULL)
            for rnd in spec["edits"]:
                rec.count("random edit rounds: " + ("node and hyperedge counts kept" if _keeps_counts(rnd) else "one hyperedge added or removed"))
            cases.append((spec, True))
    else:
        _, seed, lo, hi, force = task
        for idx in range(lo, hi):
            spec = random_spec(seed, idx, force)
            run_spec(rec, spec, filters_for(5) if force else FILTERS_FULL)
            _, _, reins = model_of(spec)
            if force is None:
                rec.count("random histories: " + ("re-insertion" if reins else "remove_edge" if spec.get("ops") else "constructor only"))
                if spec.get("weights") is not None:
                    rec.count("random histories: weighted")
            cases.append((spec if force is None else _desc_enum(5, [(tuple(s), tuple(t)) for s, t in spec["edges"]]),
                          len(spec["edges"]) > 0))
    return cases, rec.counts, rec.fails, rec.counters


def _tasks(ctx):
    """(exhaustive tasks, sampled tasks, description of the exhaustive part)."""
    if ctx.quick:
        ex = [(2, 2), (3, 3), (4, 3), (5, 2)]
        samp5 = [(3, 3000), (4, 3000)]
        nrand = 4000
    else:
        ex = [(2, 2), (3, 4), (4, 4), (5, 3)]
        samp5 = [(4, 60000)]
        nrand = 60000
    tasks = []
    for n, kmax in ex:
        ne = len(admissible_edges(n))
        for k in range(0, kmax + 1):
            if k == 0:
                tasks.append(("enum", n, 0, 0))
            else:
                tasks += [("enum", n, k, i) for i in range(ne - k + 1)]
    for n, kmax, mode in _edit_enum(ctx):
        ne = len(admissible_edges(n))
        for k in range(1, kmax + 1):
            tasks += [("editenum", n, k, i, mode) for i in range(ne - k + 1)]
    stasks = []
    for force, cnt in samp5:
        step = 1000
        stasks += [("rand", ctx.seed, lo + force * 10 ** 7, min(lo + step, cnt) + force * 10 ** 7, force)
                   for lo in range(0, cnt, step)]
    step = 500
    stasks += [("rand", ctx.seed, lo, min(lo + step, nrand), None) for lo in range(0, nrand, step)]
    nedit = 3000 if ctx.quick else 40000
    step = 250
    stasks += [("randedit", ctx.seed, lo, min(lo + step, nedit)) for lo in range(0, nedit, step)]
    return tasks, stasks, ex


def _edit_enum(ctx):
    """(n, largest number of hyperedges, which replacements) of the exhaustive query-edit-query part."""
    if ctx.quick:
        return [(2, 2, "all"), (3, 3, "all"), (4, 1, "all"), (4, 2, "reverse")]
    return [(2, 2, "all"), (3, 4, "all"), (4, 2, "all"), (4, 3, "reverse"), (5, 2, "reverse")]


def run(ctx):
    import multiprocessing as mp
    import hypergraphx.measures.directed  # noqa: F401  (import before forking)

    ctx.rule("exhaustive: node set {0..n-1} (all added explicitly), every set of <= k distinct hyperedges with disjoint "
             "non-empty source/target; sampled: n=5 with 4 hyperedges and random histories on 2..6 nodes (labels ints / "
             "scattered ints / strings, sizes 2..6, <= 8 hyperedges, weighted or not, isolated nodes, remove_edge and "
             "re-insertion histories). One case = one hypergraph history; on it every node x every order/size filter x "
             "every bound 2..6 is evaluated. Non-trivial = at least one hyperedge. Query-edit-query histories: the same "
             "evaluation before and, on the same object, after each round of remove_edge/add_edge edits on existing nodes "
             "(exhaustive: every replacement of one hyperedge on small node sets; sampled: 1..3 rounds, mostly keeping the "
             "node and hyperedge counts); one case = one such history.")
    ctx.assume("'reached from its targets' = reached through one hyperedge (the only reading under which exact <= strong <= weak can hold)")
    ctx.assume("strong/weak: where the statement is silent on whether the witnessing hyperedge must respect the bound, "
               "both readings are computed and either value is accepted")
    ctx.assume("signature layout (row-major (B-1)x(B-1), row = source size) and default bound None = largest hyperedge size are taken from the docstring")
    ctx.assume("ratios compared with 1e-9 tolerance; degrees and signature cells compared exactly")

    tasks, stasks, ex = _tasks(ctx)
    alltasks = tasks + stasks  # results are merged in task order, so the outcome does not depend on scheduling
    nproc = max(1, min(16, os.cpu_count() or 1))
    with mp.get_context("fork").Pool(nproc) as pool:
        results = pool.map(_work, alltasks, chunksize=1)
    perkey = {}
    for (cases, counts, fails, counters), task in zip(results, alltasks):
        for desc, nontrivial in cases:
            ctx.case(desc, nontrivial=nontrivial)
        ctx.count({"enum": "hypergraphs, exhaustive part", "editenum": "query-edit-query histories, exhaustive part",
                   "randedit": "query-edit-query histories, sampled part"}.get(task[0], "hypergraphs, sampled part"),
                  len(cases))
        for name, n in counts.items():
            ctx.contract_evals[name] = ctx.contract_evals.get(name, 0) + n
        for name, n in counters.items():
            ctx.count(name, n)
        for f in fails:  # at most 3 examples per kind, so that one frequent kind cannot crowd out the others
            perkey[f["key"]] = perkey.get(f["key"], 0) + 1
            if perkey[f["key"]] <= 3:
                ctx.fail(f["function"], f["clause"], f["input"], f["expected"], f["observed"], f["key"], f["replay"])
    for n, kmax in ex:
        ctx.exhaustive_parts.append(
            f"all directed hypergraphs with node set 0..{n - 1} and <= {kmax} hyperedges out of the "
            f"{len(admissible_edges(n))} admissible ones (sizes 2..{n}); every node, every filter size=1..{n + 1} / "
            f"order=0..{n} / none, every bound 2..6")
    for n, kmax, mode in _edit_enum(ctx):
        ctx.exhaustive_parts.append(
            f"query-edit-query on one object: all directed hypergraphs with node set 0..{n - 1} and 1..{kmax} "
            f"hyperedges x every replacement of one hyperedge by "
            + ("any absent admissible hyperedge" if mode == "all" else "its reverse (when absent)")
            + "; all measures before and after, same filters and bounds")


def replay(data):
    spec = data["spec"]
    rec = Rec()
    run_spec(rec, spec, FILTERS_FULL)
    if not rec.fails:
        return True, f"all {sum(rec.counts.values())} clause evaluations hold on this hypergraph"
    f = rec.fails[0]
    kinds = sorted({x["key"] for x in rec.fails})
    return False, (f"{len(kinds)} kind(s) of failing clause, first: {f['key']} input={f['input']} "
                   f"expected={f['expected']} observed={f['observed']}; all: {kinds}")
