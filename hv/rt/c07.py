"""C07 (bounded): hash_hypergraph is a canonical fingerprint - equal content iff equal hash.

Function under contract (real code of /repo): readwrite.hashing.hash_hypergraph (through it expose_attributes_for_hashing
of Hypergraph, DirectedHypergraph, TemporalHypergraph, MultiplexHypergraph).

Scope
  exhaustive  Contents: for each container type x {weighted, unweighted} x {integer, string labels} every content on
              the node universe {0..n-1} (all n nodes present, uncovered ones isolated) with at most k distinct records
              (node set / ordered pair of disjoint node sets / (time, node set) / (node set, layer); see hv/rt/c06.py,
              whose generator is reused):
                quick    : H n<=3 k<=3; D n<=3 k<=2; T, M n<=3 k<=2
                thorough : H n<=4 k<=3; D n<=3 k<=3 and n=4 k<=1; T, M n<=3 k<=3 and n=4 k<=1
              with weights, nested JSON metadata (hypergraph / node / hyperedge level) and label maps rotating through
              fixed pools.  For every content, every history and every edit listed below.
  equality    Pairs (canonical history, other history of the same container type):
              same history twice; nodes and hyperedges in reversed order; hyperedges before nodes; each hyperedge's
              nodes listed in another order; two seeded shuffles of everything; the bulk constructor; a new hyperedge
              over existing nodes inserted then removed (at the end / before the content's hyperedges); every
              hyperedge of the content removed and inserted again; a new isolated node inserted then removed (at the
              end / first); a hyperedge through a new node inserted, then hyperedge and node removed; the same with
              remove_node alone (which drops the hyperedge); every node of the content removed (with its hyperedges)
              and node and hyperedges inserted again.  Node metadata are (re)installed by set_node_metadata at the
              end of every history where the container reports other ones.
              A history in which a mutator raises is skipped and counted (remove_edge / remove_node of the Directed /
              Temporal / Multiplex classes: C02-C04).  If both histories execute, their deep snapshots through the
              public API must agree - otherwise the pair is skipped and counted, the mutators are not C07's subject -
              and then the hashes must be equal.
  setters     Further equality pairs, on the content enriched with two typed scalar entries (from a pool of int / float /
              bool values incl. 1 / 1.0 / True, 0 / 0.0 / False, 7 / 7.0, 2**40, 1e-07) at the top level of the hypergraph
              metadata and of every node's and hyperedge's metadata; weights come from pools holding int and float values
              (also integral floats such as 7.0).  Pairs (canonical history: everything given to add_node / add_edge /
              constructor, history in which the final values are written by a setter):
                weighted   : hyperedges inserted with other weights (the same number in the other numeric type, 7 <-> 7.0,
                             or another number), then set_weight(final) - two variants; canonical insertion, then
                             set_weight(other) on every hyperedge and set_weight(final) back; set_weight with the weight
                             the hyperedge already has;
                unweighted : set_weight(hyperedge, 1) on every hyperedge (the only admissible weight, integer 1);
                hyperedge metadata : inserted with other metadata (same keys, values in another numeric type - True -> 1,
                             7 -> 7.0, 7.0 -> 7 - or other values, or other keys), then set_edge_metadata(final)
                             (not Multiplex: no such method); inserted with {} and built key by key with
                             set_attr_to_edge_metadata (provisional value first, then the final one) with a temporary
                             key set and removed by remove_attr_from_edge_metadata;
                node metadata : the same with set_node_metadata (not Multiplex) and set_attr_to_node_metadata /
                             remove_attr_from_node_metadata;
                hypergraph metadata : constructor given provisional values / nothing, then every key written by
                             set_attr_to_hypergraph_metadata (provisional values first in the second variant).
              The setters name the hyperedges with the nodes listed in the insertion order or reversed.
              Both histories of a pair write the final value of every weight and metadata entry with the very same
              Python value (same number, same numeric type), so they describe the same content incl. numeric types;
              when their snapshots through the public API are equal (Python ==, as above) the hashes must be equal.
              A setter that stores something else than it was given (7 as 7.0, True as 1) therefore shows up here.
              Difference direction through setters: canonical history vs. canonical history followed by ONE
              set_weight(w + 1) / set_attr_to_edge_metadata / set_attr_to_node_metadata / set_attr_to_hypergraph_metadata
              (new key): snapshots must differ (else skipped) and then the hashes must differ.
  difference  Pairs (content, content with ONE element edited), both built canonically (the second in reversed
              order): an isolated node added / removed; a hyperedge added / removed; one node added to / dropped from
              one hyperedge; one weight; one time; one layer; direction swapped / one node moved from source to
              target; weightedness (all weights 1); one metadata value changed / key added / key removed at node,
              hyperedge and hypergraph level (nested values included).  The snapshots must differ (sanity) and the
              hashes must differ.
  purity      The snapshot of the canonical object of every content before and after hash_hypergraph.
  sampled     Seeded random contents beyond the small scope (up to 7 nodes, hyperedges up to size 5, up to 6 records,
              random nested metadata) with the same histories and edits.
Oracle
  The abstract content is what the container reports through its public getters (type, is_weighted, get_nodes(metadata
  =True), get_edges, get_weight, get_edge_metadata, get_hypergraph_metadata), deep-copied into plain dicts; equal
  content = equal snapshots by Python ==.  "Same numeric type" of weights and metadata values is guaranteed by construction
  instead of being read back: the two histories of an equality pair write every final value with the same Python value
  (taken from one description), whichever call writes it.  (Pairs whose getters nevertheless report a weight in
  different numeric types are counted in the evidence.)
Limits
  * Equality of hashes of different container types holding "the same" content is not examined (statement: same type).
  * Weights differing only in numeric type (2 vs 2.0) are not used as an edit; metadata edits always change the value
    under Python == and in its JSON text.  set_weight(hyperedge, 1.0) / set_weight(hyperedge, True) in an unweighted
    container (accepted by the code, but another numeric type than the implicit 1) are not used.
  * set_hypergraph_metadata, set_incidence_metadata, set_layer_metadata / set_dataset_metadata are not part of the setter
    histories (the first replaces the constructor's entries too and is only used by the purity clause; incidence
    metadata are not part of the hashed content according to the statement).
  * SHA-256 collisions are ignored.
Execution
  Fixed tasks (container type x weightedness x label kind x part) in forked worker processes, string-seeded RNG per
  task, results merged in task order (see hv/rt/c06.py run_tasks): the evidence does not depend on the process count.
"""
import copy
import random

from . import c06 as base

PROPERTY = "C07"
FN = "readwrite.hashing.hash_hypergraph"
KINDS = base.KINDS
RAISES = base.RAISES


# ------------------------------------------------------------------------------------------------ histories
def _header(spec):
    return {"kind": spec["kind"], "weighted": spec["weighted"], "hmeta": spec["hmeta"]}


def _hist(spec, ops):
    h = _header(spec)
    h["ops"] = ops
    return h


def _relist(kind, r, f):
    r = dict(r)
    r["e"] = [f(list(r["e"][0])), f(list(r["e"][1]))] if kind == "D" else f(list(r["e"]))
    return r


def _nodes_ops(nodes):
    return [["node", n, md] for n, md in nodes]


def _edges_ops(recs):
    return [["edge", r] for r in recs]


def canonical(spec):
    return _hist(spec, _nodes_ops(spec["nodes"]) + _edges_ops(spec["records"]) + [["fix", spec["nodes"]]])


def _znode(spec):
    labels = [n for n, _ in spec["nodes"]]
    return "zz" if (labels and isinstance(labels[0], str)) else 999


def _zrecord(spec, salt):
    """A hyperedge through the new node z (and existing ones)."""
    kind, z = spec["kind"], _znode(spec)
    labels = [n for n, _ in spec["nodes"]]
    some = base._rot(labels, salt)[:1 + salt % 2]
    w = [3, 0.25][salt % 2] if spec["weighted"] else None
    md = copy.deepcopy(base.EDGE_MD[salt % len(base.EDGE_MD)])
    if kind == "D":
        if not some:
            return None
        e = [[z], some] if salt % 2 else [some, [z]]
        return {"e": e, "w": w, "md": md}
    r = {"e": some + [z] if salt % 2 else [z] + some, "w": w, "md": md}
    if kind == "T":
        r["t"] = [0, 2, 31][salt % 3]
    if kind == "M":
        r["l"] = ["a", "zz"][salt % 2]
    return r


def equal_histories(spec, salt, rng):
    """(name, history) pairs that must end in the content described by spec."""
    kind = spec["kind"]
    nodes, recs = spec["nodes"], spec["records"]
    fix = [["fix", nodes]]
    N, E = _nodes_ops(nodes), _edges_ops(recs)
    yield "same history twice", _hist(spec, N + E + fix)
    yield "reversed insertion order", _hist(spec, N[::-1] + E[::-1] + fix)
    yield "hyperedges before nodes", _hist(spec, E + N + fix)
    if recs:
        yield "nodes of each hyperedge listed in reverse", _hist(
            spec, N + _edges_ops([_relist(kind, r, lambda x: x[::-1]) for r in recs]) + fix)
    for s in range(2):
        ops = N + _edges_ops([_relist(kind, r, lambda x: rng.sample(x, len(x))) for r in recs])
        rng.shuffle(ops)
        yield "seeded shuffle", _hist(spec, ops + fix)
    yield "bulk constructor", _hist(spec, [["ctor", {"nodes": nodes, "records": recs}]] + fix)
    x = base.extra_record(spec, salt)
    if x is not None:
        yield "new hyperedge inserted then removed", _hist(spec, N + E + [["edge", x], ["rm_edge", x]] + fix)
        yield "new hyperedge inserted first, removed last", _hist(spec, N + [["edge", x]] + E + [["rm_edge", x]] + fix)
    for j, r in enumerate(recs):
        r2 = _relist(kind, r, lambda x: x[::-1])
        yield "hyperedge removed and inserted again", _hist(
            spec, N + E + [["rm_edge", r2 if j % 2 else r], ["edge", r]] + fix)
    z = _znode(spec)
    zmd = {"tmp": [salt, {"z": None}]}
    yield "new isolated node inserted then removed", _hist(spec, N + E + [["node", z, zmd], ["rm_node", z]] + fix)
    yield "new isolated node inserted first, removed before the hyperedges", _hist(
        spec, [["node", z, zmd]] + N + [["rm_node", z]] + E + fix)
    zr = _zrecord(spec, salt)
    if zr is not None:
        yield "hyperedge through a new node inserted, hyperedge then node removed", _hist(
            spec, N + E + [["edge", zr], ["rm_edge", zr], ["rm_node", z]] + fix)
        yield "hyperedge through a new node inserted, node removed (dropping the hyperedge)", _hist(
            spec, N + E + [["edge", zr], ["rm_node", z]] + fix)
    for n, md in nodes:
        inc = [r for r in recs if n in base.rec_nodes(kind, r)]
        yield ("isolated node removed and inserted again" if not inc else
               "node removed with its hyperedges, all inserted again"), _hist(
            spec, N + E + [["rm_node", n], ["node", n, md]] + _edges_ops(inc) + fix)
        # the node first carries OTHER metadata, is removed (a removed node is gone: what it carried must not come back) and inserted again
        # with the final metadata; every node is inserted explicitly before any hyperedge mentions it, so no repair step is needed - or used
        other = {"stale": [salt, "was here"], **copy.deepcopy(md)} if isinstance(md, dict) else {"stale": salt}
        N2 = [["node", m, (other if m == n else mdm)] for m, mdm in nodes]
        yield "node removed while carrying other metadata, inserted again with the final metadata (no repair step)", _hist(
            spec, N2 + E + [["rm_node", n], ["node", n, md]] + _edges_ops(inc))


# ------------------------------------------------------------------------------------------------ setter histories
# typed scalars: int / float / bool values, among them 1 / 1.0 / True and 0 / 0.0 / False, which are equal under == but have
# different JSON texts
SCALARS = [["count", 7], ["ratio", 7.0], ["on", True], ["off", False], ["one", 1], ["unit", 1.0], ["zero", 0], ["nil", 0.0],
           ["big", 2 ** 40], ["neg", -3], ["tiny", 1e-07], ["half", 0.5]]


def _typed_md(md, i):
    d = copy.deepcopy(md)
    for j in (i, i + 5):
        k, v = SCALARS[j % len(SCALARS)]
        d[k] = v
    return d


def typed_spec(spec, salt):
    """The content with two typed scalar entries added at the top level of the hypergraph metadata and of every node's and
    every hyperedge's metadata: the setter histories then meet int, float and bool values at every level, whatever the pools gave."""
    return _with(spec, hmeta=_typed_md(spec["hmeta"], salt),
                 nodes=[[n, _typed_md(md, salt + 1 + j)] for j, (n, md) in enumerate(spec["nodes"])],
                 records=[dict(r, md=_typed_md(r["md"], salt + 3 + 2 * j)) for j, r in enumerate(spec["records"])])


def provisional(v, salt):
    """A value that is going to be overwritten by v: for even salt v in another numeric type where there is one
    (True -> 1, 7 -> 7.0, 7.0 -> 7), otherwise another value of the same type."""
    if salt % 2 == 0:
        if isinstance(v, bool):
            return int(v)
        if isinstance(v, int) and abs(v) < 2 ** 53:
            return float(v)
        if isinstance(v, float) and abs(v) < 2 ** 53 and v == int(v):
            return int(v)
    return mutate_value(v, salt)


def _prov_md(md, salt):
    return {k: provisional(v, salt + j) for j, (k, v) in enumerate(sorted(md.items()))}


def setter_histories(spec, salt):
    """(name, history) pairs that must end in the content described by spec and in which weights / metadata get their final
    values from set_weight, set_edge_metadata, set_node_metadata and the set_attr_to_... / remove_attr_from_... methods
    instead of (or after) the inserting call.  Every final value is written with the very Python value of the
    description, so value and numeric type of everything are those of the canonical history."""
    kind = spec["kind"]
    nodes, recs = spec["nodes"], spec["records"]
    fix = [["fix", nodes]]
    N, E = _nodes_ops(nodes), _edges_ops(recs)
    rl = [_relist(kind, r, lambda x: x[::-1]) if j % 2 else r for j, r in enumerate(recs)]   # how the setters name the hyperedges
    if recs and spec["weighted"]:
        for s in range(2):
            other = _edges_ops([dict(r, w=provisional(r["w"], salt + j + s)) for j, r in enumerate(recs)])
            yield "weights given by set_weight after an insertion with other weights", _hist(
                spec, N + other + [["set_w", x, r["w"]] for x, r in zip(rl, recs)] + fix)
        yield "weights changed by set_weight and set back", _hist(
            spec, N + E + [["set_w", x, provisional(r["w"], salt + j)] for j, (x, r) in enumerate(zip(rl, recs))]
            + [["set_w", r, r["w"]] for r in recs[::-1]] + fix)
        yield "set_weight with the weight the hyperedge has", _hist(spec, N + E + [["set_w", x, r["w"]] for x, r in zip(rl, recs)] + fix)
    if recs and not spec["weighted"]:
        yield "set_weight(1) in an unweighted container", _hist(spec, N + E + [["set_w", x, 1] for x in rl] + fix)
    tmp = ["tmp attr", [1, 1.0, True, {"t": 0}][salt % 4]]
    if recs:
        if kind != "M":     # MultiplexHypergraph has no set_edge_metadata
            other = _edges_ops([dict(r, md=_prov_md(r["md"], salt + j) if (salt + j) % 3 else {"tmp": j}) for j, r in enumerate(recs)])
            yield "hyperedge metadata installed by set_edge_metadata", _hist(
                spec, N + other + [["set_emd", x, r["md"]] for x, r in zip(rl, recs)] + fix)
        ops = []
        for j, (x, r) in enumerate(zip(rl, recs)):
            items = sorted(r["md"].items())
            ops += [["attr_e", x, k, provisional(v, salt + j + i)] for i, (k, v) in enumerate(items)] + [["attr_e", x] + tmp]
            ops += [["attr_e", r, k, v] for k, v in items[::-1]] + [["del_attr_e", r, tmp[0]]]
        yield "hyperedge metadata built by set_attr_to_edge_metadata / remove_attr_from_edge_metadata", _hist(
            spec, N + _edges_ops([dict(r, md={}) for r in recs]) + ops + fix)
    if nodes:
        if kind != "M":     # nor set_node_metadata
            other = [["node", n, _prov_md(md, salt + j) if (salt + j) % 3 else {"tmp": j}] for j, (n, md) in enumerate(nodes)]
            yield "node metadata installed by set_node_metadata", _hist(spec, other + E + [["set_nmd", n, md] for n, md in nodes] + fix)
        ops = []
        for j, (n, md) in enumerate(nodes):
            items = sorted(md.items())
            ops += [["attr_n", n, k, provisional(v, salt + j + i)] for i, (k, v) in enumerate(items)] + [["attr_n", n] + tmp]
            ops += [["attr_n", n, k, v] for k, v in items[::-1]] + [["del_attr_n", n, tmp[0]]]
        yield "node metadata built by set_attr_to_node_metadata / remove_attr_from_node_metadata", _hist(
            spec, [["node", n, {}] for n, _ in nodes] + E + ops + fix)
    if spec["hmeta"]:
        items = sorted(spec["hmeta"].items())
        for s in range(2):
            h = _hist(spec, ([["attr_h", k, provisional(v, salt + i)] for i, (k, v) in enumerate(items)] if s else [])
                      + N + E + [["attr_h", k, v] for k, v in items[::-1]] + fix)
            h["hmeta"] = {} if s else _prov_md(spec["hmeta"], salt)
            yield "hypergraph metadata built by set_attr_to_hypergraph_metadata", h


def setter_edits(spec, salt):
    """(name, history) - the canonical history of spec followed by ONE setter call that changes one element of the content."""
    A = canonical(spec)
    recs, nodes = spec["records"], spec["nodes"]
    if recs:
        r = recs[salt % len(recs)]
        if spec["weighted"]:
            yield "a weight (changed by set_weight)", dict(A, ops=A["ops"] + [["set_w", r, r["w"] + 1]])
        yield "a hyperedge metadata value (key added by set_attr_to_edge_metadata)", dict(
            A, ops=A["ops"] + [["attr_e", r, "extra key", [salt % 3]]])
    if nodes:
        yield "a node metadata value (key added by set_attr_to_node_metadata)", dict(
            A, ops=A["ops"] + [["attr_n", nodes[salt % len(nodes)][0], "extra key", salt % 3]])
    yield "a hypergraph metadata value (key added by set_attr_to_hypergraph_metadata)", dict(
        A, ops=A["ops"] + [["attr_h", "extra key", {"v": salt % 3}]])


def _edge_args(kind, r):
    """The positional arguments that name the hyperedge of record r in the setters."""
    if kind == "H":
        return (tuple(r["e"]),)
    if kind == "D":
        return ((tuple(r["e"][0]), tuple(r["e"][1])),)
    return (tuple(r["e"]), r["t"] if kind == "T" else r["l"])


def setter_op(h, kind, op):
    """Executes one setter op; returns False if op is not one."""
    step = op[0]
    if step == "set_w":
        h.set_weight(*_edge_args(kind, op[1]), op[2])
    elif step == "set_emd":
        h.set_edge_metadata(*_edge_args(kind, op[1]), copy.deepcopy(op[2]))
    elif step == "attr_e":
        h.set_attr_to_edge_metadata(*_edge_args(kind, op[1]), op[2], copy.deepcopy(op[3]))
    elif step == "del_attr_e":
        h.remove_attr_from_edge_metadata(*_edge_args(kind, op[1]), op[2])
    elif step == "set_nmd":
        h.set_node_metadata(op[1], copy.deepcopy(op[2]))
    elif step == "attr_n":
        h.set_attr_to_node_metadata(op[1], op[2], copy.deepcopy(op[3]))
    elif step == "del_attr_n":
        h.remove_attr_from_node_metadata(op[1], op[2])
    elif step == "attr_h":
        h.set_attr_to_hypergraph_metadata(op[1], copy.deepcopy(op[2]))
    else:
        return False
    return True


SETTER_NAMES = {"set_w": "set_weight", "set_emd": "set_edge_metadata", "attr_e": "set_attr_to_edge_metadata",
                "del_attr_e": "remove_attr_from_edge_metadata", "set_nmd": "set_node_metadata", "attr_n": "set_attr_to_node_metadata",
                "del_attr_n": "remove_attr_from_node_metadata", "attr_h": "set_attr_to_hypergraph_metadata"}


def ctor_build(hist, content):
    kind = hist["kind"]
    recs = content["records"]
    kw = dict(weighted=hist["weighted"], hypergraph_metadata=copy.deepcopy(hist["hmeta"]),
              node_metadata={n: copy.deepcopy(md) for n, md in content["nodes"]},
              edge_metadata=[copy.deepcopy(r["md"]) for r in recs],
              weights=[r["w"] for r in recs] if hist["weighted"] else None)
    C = base._cls(kind)
    if kind == "H":
        return C(edge_list=[tuple(r["e"]) for r in recs], **kw)
    if kind == "D":
        return C(edge_list=[(tuple(r["e"][0]), tuple(r["e"][1])) for r in recs], **kw)
    if kind == "T":
        return C(edge_list=[tuple(r["e"]) for r in recs], time_list=[r["t"] for r in recs], **kw)
    return C(edge_list=[tuple(r["e"]) for r in recs], edge_layer=[r["l"] for r in recs], **kw)


def execute(hist):
    """Runs a history on a fresh container. Returns (object, None) or (None, 'which mutator raised')."""
    kind = hist["kind"]
    ops = hist["ops"]
    step = "constructor"
    try:
        with base.quiet():
            if ops and ops[0][0] == "ctor":
                h = ctor_build(hist, ops[0][1])
                ops = ops[1:]
            else:
                h = base.new_container(hist)
            for op in ops:
                step = op[0]
                if step == "node":
                    h.add_node(op[1], metadata=copy.deepcopy(op[2]))
                elif step == "edge":
                    base.add_edge(h, kind, op[1])
                elif step == "rm_edge":
                    base.remove_edge(h, kind, op[1])
                elif step == "rm_node":
                    h.remove_node(op[1])
                elif step == "fix":
                    base.fix_node_metadata(h, op[1])
                elif step == "flip":
                    # an (empty) batch with a weight list announces "the hypergraph will be weighted" on the directed / temporal / multiplex
                    # containers: the content stays, the weightedness changes
                    if kind == "D":
                        h.add_edges([], weights=[])
                    elif kind in ("T", "M"):
                        h.add_edges([], [], weights=[])
                elif not setter_op(h, kind, op):
                    raise ValueError("unknown op " + str(step))
    except Exception as ex:
        names = {"node": "add_node", "edge": "add_edge", "rm_edge": "remove_edge", "rm_node": "remove_node", "flip": "add_edges",
                 "fix": "set_node_metadata", "constructor": "constructor", "ctor": "constructor"}
        names.update(SETTER_NAMES)
        return None, f"{names.get(step, step)} raised {type(ex).__name__}"
    return h, None


def same_content(a, b):
    """Equal snapshots (Python ==).  The numeric type of every weight and metadata value is the same in the two histories of a
    pair by construction: both write the final value of every element with the very Python value of one description."""
    return a == b


def reported_types_differ(a, b):
    """Do the two (equal) snapshots report a weight with different numeric types?  Informational only."""
    return any(type(a["records"][k][0]) is not type(b["records"][k][0]) for k in a["records"])


def do_hash(h):
    from hypergraphx.readwrite.hashing import hash_hypergraph
    with base.quiet():
        return hash_hypergraph(h)


# ------------------------------------------------------------------------------------------------ single-element edits
def mutate_value(v, salt=0):
    """A value that differs from v under == and in its JSON text."""
    if isinstance(v, bool):
        return not v
    if v is None:
        return "none"
    if isinstance(v, (int, float)):
        return v + 1 if v + 1 != v else v * 2
    if isinstance(v, str):
        return v + "'"
    if isinstance(v, list):
        if v and salt % 2 == 0:
            return v[:-1] + [mutate_value(v[-1], salt + 1)]
        if len(v) > 1 and v[::-1] != v:
            return v[::-1]
        return v + [0]
    if isinstance(v, dict):
        if v:
            k = sorted(v)[salt % len(v)]
            d = copy.deepcopy(v)
            d[k] = mutate_value(d[k], salt + 1)
            return d
        return {"k": 0}
    return {"was": repr(v)}


def md_edits(md, salt):
    """(name, edited metadata dict): one value changed, one key added, one key removed."""
    if md:
        k = sorted(md)[salt % len(md)]
        d = copy.deepcopy(md)
        d[k] = mutate_value(d[k], salt)
        yield "value changed", d
        d = copy.deepcopy(md)
        del d[k]
        yield "key removed", d
    d = copy.deepcopy(md)
    d["extra key"] = [salt % 3]
    yield "key added", d


def _with(spec, **kw):
    s = dict(spec)
    s.update(kw)
    return s


def _replace(seq, j, item):
    seq = list(seq)
    seq[j] = item
    return seq


def single_edits(spec, salt):
    """(name, edited description) - each differs from spec in exactly one element of the content."""
    kind = spec["kind"]
    nodes, recs = spec["nodes"], spec["records"]
    keys = {base.rec_key(kind, r) for r in recs}
    labels = [n for n, _ in nodes]
    z = _znode(spec)
    yield "a node (isolated node added)", _with(spec, nodes=nodes + [[z, {}]])
    covered = {x for r in recs for x in base.rec_nodes(kind, r)}
    for j, (n, md) in enumerate(nodes):
        if n not in covered:
            yield "a node (isolated node removed)", _with(spec, nodes=nodes[:j] + nodes[j + 1:])
            break
    x = base.extra_record(spec, salt)
    if x is not None:
        yield "a hyperedge (added)", _with(spec, records=recs + [x])
    for j, r in enumerate(recs):
        yield "a hyperedge (removed)", _with(spec, records=recs[:j] + recs[j + 1:])
        # one node more / one node less in this hyperedge
        members = base.rec_nodes(kind, r)
        outside = [n for n in labels if n not in members]
        cands = []
        if outside:
            a = outside[(salt + j) % len(outside)]
            cands.append(("a hyperedge (one more node)",
                          dict(r, e=[list(r["e"][0]) + [a], list(r["e"][1])] if kind == "D" else list(r["e"]) + [a])))
        if kind == "D":
            if len(r["e"][0]) > 1:
                cands.append(("a hyperedge (one node less)", dict(r, e=[list(r["e"][0])[1:], list(r["e"][1])])))
                cands.append(("a direction (one node moved from source to target)",
                              dict(r, e=[list(r["e"][0])[1:], list(r["e"][1]) + [r["e"][0][0]]])))
            cands.append(("a direction (source and target swapped)", dict(r, e=[list(r["e"][1]), list(r["e"][0])])))
        elif len(r["e"]) > 1:
            cands.append(("a hyperedge (one node less)", dict(r, e=list(r["e"])[1:])))
        if kind == "T":
            cands.append(("a time", dict(r, t=r["t"] + 1)))
        if kind == "M":
            cands.append(("a layer", dict(r, l=r["l"] + "x")))
        for name, r2 in cands:
            if base.rec_key(kind, r2) not in keys:
                yield name, _with(spec, records=_replace(recs, j, r2))
        if spec["weighted"]:
            yield "a weight", _with(spec, records=_replace(recs, j, dict(r, w=r["w"] + 1)))
        for name, md2 in md_edits(r["md"], salt + j):
            yield "a hyperedge metadata value (" + name + ")", _with(spec, records=_replace(recs, j, dict(r, md=md2)))
    for j, (n, md) in enumerate(nodes):
        for name, md2 in md_edits(md, salt + j):
            yield "a node metadata value (" + name + ")", _with(spec, nodes=_replace(nodes, j, [n, md2]))
    for name, md2 in md_edits(spec["hmeta"], salt):
        yield "a hypergraph metadata value (" + name + ")", _with(spec, hmeta=md2)


def weightedness_pair(spec):
    """The content with all weights 1, unweighted and weighted."""
    u = _with(spec, weighted=False, records=[dict(r, w=None) for r in spec["records"]])
    w = _with(spec, weighted=True, records=[dict(r, w=1) for r in spec["records"]])
    return u, w


def reversed_canonical(spec):
    return _hist(spec, _nodes_ops(spec["nodes"])[::-1] + _edges_ops(spec["records"])[::-1] + [["fix", spec["nodes"]]])


# ------------------------------------------------------------------------------------------------ contracts
def _obj(rep, hist, what, inp, rp):
    """Execute + snapshot + hash. Returns (snapshot, hash, None) or (None, None, reason)."""
    h, err = execute(hist)
    if h is None:
        return None, None, err
    try:
        snap = base.snapshot(h)
    except Exception as ex:
        return None, None, f"public getter raised {type(ex).__name__}"
    tname = KINDS[hist["kind"]]
    try:
        d = do_hash(h)
    except Exception as ex:
        rep.check(False, FN, RAISES, inp, observed=repr(ex), key=f"{FN}:{RAISES} [{tname}]", replay=rp)
        return None, None, "hash_hypergraph raised"
    rep.check(True, FN, RAISES, inp)
    if what == "pure":
        try:
            after = base.snapshot(h)
        except Exception as ex:
            after = {"getter raised": repr(ex)}
        cl = "computing the hash never changes the hypergraph"
        rep.check(after == snap, FN, cl, inp, expected=lambda: base._show(snap),
                  observed=lambda: base._show(after) if "type" in after else after, key=f"{FN}:{cl} [{tname}]", replay=rp)
        # the same on an object whose hypergraph metadata was replaced by the user (it then lacks the constructor's entries)
        h2, _ = execute(hist)
        if h2 is not None:
            try:
                h2.set_hypergraph_metadata({"note": "replaced by the user"})
                s2 = base.snapshot(h2)
                do_hash(h2)
                a2 = base.snapshot(h2)
                rep.check(a2 == s2, FN, cl, inp, expected=lambda: base._show(s2), observed=lambda: base._show(a2) if "type" in a2 else a2,
                          key=f"{FN}:{cl} [{tname}; hypergraph metadata replaced]", replay=rp)
            except Exception:   # noqa: BLE001 - a raising getter / hash is reported by the clauses above
                pass
    return snap, d, None


CATEGORY = {
    "same history twice": "insertion order",
    "reversed insertion order": "insertion order",
    "hyperedges before nodes": "insertion order",
    "seeded shuffle": "insertion order",
    "nodes of each hyperedge listed in reverse": "node order inside a hyperedge",
    "bulk constructor": "bulk constructor",
    "new hyperedge inserted then removed": "hyperedge inserted then removed",
    "new hyperedge inserted first, removed last": "hyperedge inserted then removed",
    "hyperedge removed and inserted again": "hyperedge removed and inserted again",
    "new isolated node inserted then removed": "node inserted then removed",
    "new isolated node inserted first, removed before the hyperedges": "node inserted then removed",
    "hyperedge through a new node inserted, hyperedge then node removed": "hyperedge and node inserted then removed",
    "hyperedge through a new node inserted, node removed (dropping the hyperedge)": "hyperedge and node inserted then removed",
    "isolated node removed and inserted again": "node removed and inserted again",
    "node removed with its hyperedges, all inserted again": "node removed and inserted again",
    "weights given by set_weight after an insertion with other weights": "weight given by set_weight",
    "weights changed by set_weight and set back": "weight given by set_weight",
    "set_weight with the weight the hyperedge has": "weight given by set_weight",
    "set_weight(1) in an unweighted container": "weight given by set_weight",
    "hyperedge metadata installed by set_edge_metadata": "hyperedge metadata given by the setters",
    "hyperedge metadata built by set_attr_to_edge_metadata / remove_attr_from_edge_metadata": "hyperedge metadata given by the setters",
    "node metadata installed by set_node_metadata": "node metadata given by the setters",
    "node metadata built by set_attr_to_node_metadata / remove_attr_from_node_metadata": "node metadata given by the setters",
    "hypergraph metadata built by set_attr_to_hypergraph_metadata": "hypergraph metadata given by the setter",
}


def equal_case(rep, hist_a, hist_b, name, pure=False, a=None):
    """Two histories; if both execute and reach the same public content the hashes must be equal.
    a: (snapshot, hash, error) of history A when the caller has executed it already."""
    tname = KINDS[hist_a["kind"]]
    rp = {"part": "equal", "a": hist_a, "b": hist_b, "name": name}
    inp = {"history A": hist_a, "history B": hist_b, "kind of pair": name}
    sa, da, err = a if a is not None else _obj(rep, hist_a, "pure" if pure else "", inp, rp)
    if sa is None:
        return "history A: " + err
    sb, db, err = _obj(rep, hist_b, "", inp, rp)
    if sb is None:
        return err
    if not same_content(sa, sb):
        return "histories reach different public contents"
    if reported_types_differ(sa, sb) and rep.ctx is not None:
        rep.ctx.count(f"pairs whose getters report a weight in different numeric types although both histories wrote the same value [{tname}]")
    cl = "same content, same hash"
    rep.check(da == db, FN, cl, inp, expected="equal hashes (both objects report " + repr(base._show(sa))[:600] + ")",
              observed=[da, db], key=f"{FN}:{cl} [{tname}; {CATEGORY.get(name, name)}]", replay=rp)
    return "done"


def differ_case(rep, spec_a, spec_b, name, a=None, hist_b=None):
    tname = KINDS[spec_a["kind"]]
    hist_a, hist_b = canonical(spec_a), (hist_b if hist_b is not None else reversed_canonical(spec_b))
    rp = {"part": "differ", "a": hist_a, "b": hist_b, "name": name}
    inp = {"history A": hist_a, "history B": hist_b, "edited element": name}
    sa, da, err = a if a is not None else _obj(rep, hist_a, "", inp, rp)
    if sa is None:
        return "history A: " + err
    sb, db, err = _obj(rep, hist_b, "", inp, rp)
    if sb is None:
        return err
    if sa == sb:
        return "edit not visible in the public content"
    cl = "different content, different hash"
    short = name.split(" (")[0]
    rep.check(da != db, FN, cl, inp, expected="different hashes", observed=[da, db],
              key=f"{FN}:{cl} [{tname}; {short} differs]", replay=rp)
    return "done"


def content_cases(ctx, rep, spec, salt, rng):
    tname = KINDS[spec["kind"]]
    A = canonical(spec)
    a = _obj(rep, A, "pure", {"history": A}, {"part": "equal", "a": A, "b": A, "name": "same history twice"})
    for name, B in equal_histories(spec, salt, rng):
        ctx.case(base.spec_desc(spec, v=name, h=base.zlib.crc32(repr(B["ops"]).encode())), nontrivial=bool(spec["nodes"]))
        st = equal_case(rep, A, B, name, a=a)
        if st != "done":
            ctx.count(f"pair skipped [{tname}; {name}]: {st}")
        else:
            ctx.count(f"equality pairs evaluated [{tname}]")
    # the setter histories, on the content enriched with typed scalars (int / float / bool) at every metadata level
    tspec = typed_spec(spec, salt)
    A2 = canonical(tspec)
    a2 = _obj(rep, A2, "", {"history": A2}, {"part": "equal", "a": A2, "b": A2, "name": "same history twice"})
    for name, B in setter_histories(tspec, salt):
        ctx.case(base.spec_desc(tspec, v=name, h=base.zlib.crc32(repr(B).encode())), nontrivial=bool(spec["nodes"]))
        st = equal_case(rep, A2, B, name, a=a2)
        if st != "done":
            ctx.count(f"pair skipped [{tname}; {name}]: {st}")
        else:
            ctx.count(f"equality pairs evaluated [{tname}]")
            ctx.count(f"equality pairs through setters evaluated [{tname}]")
    edits = [(name, spec2, None) for name, spec2 in single_edits(spec, salt)]
    if not spec["weighted"]:
        u, w = weightedness_pair(spec)
        edits.append(("the weightedness", w, None))
    if not spec["weighted"] and spec["kind"] in ("D", "T", "M"):
        flipped = dict(A, ops=list(A["ops"]) + [("flip",)])
        edits.append(("the weightedness (switched on by a weighted batch after construction)", spec, flipped))
    edits += [(name, spec, B) for name, B in setter_edits(spec, salt)]
    for name, spec2, hist_b in edits:
        ctx.case(base.spec_desc(spec, v=name, h=base.zlib.crc32(repr(spec2 if hist_b is None else hist_b["ops"][-1]).encode())),
                 nontrivial=bool(spec["nodes"]))
        st = differ_case(rep, spec, spec2, name, a=a, hist_b=hist_b)
        if st != "done":
            ctx.count(f"edit skipped [{tname}; {name}]: {st}")
        else:
            ctx.count(f"difference pairs evaluated [{tname}]")


def plans(quick):
    if quick:
        return {"H": [(0, 0), (1, 1), (2, 3), (3, 3)], "D": [(2, 2), (3, 2)], "T": [(1, 2), (2, 2), (3, 2)],
                "M": [(1, 2), (2, 2), (3, 2)]}
    return {"H": [(0, 0), (1, 1), (2, 3), (3, 3), (4, 3)], "D": [(2, 2), (3, 3), (4, 1)],
            "T": [(1, 2), (2, 3), (3, 3), (4, 1)], "M": [(1, 2), (2, 3), (3, 3), (4, 1)]}


N_PARTS = 4


def _worker(args):
    seed, quick, task = args
    sink = base.Sink()
    rep = base.Rep(sink)
    rng = random.Random("C07/%d/%r" % (seed, task))
    what, kind, weighted, labelkind, part = task
    if what == "small":
        for i, spec in enumerate(base.small_specs(kind, weighted, labelkind, plans(quick)[kind])):
            if i % N_PARTS == part:
                content_cases(sink, rep, spec, i, rng)
    else:
        for j in range((40 if quick else 600) // N_PARTS):
            content_cases(sink, rep, base.random_spec(rng, kind, weighted, labelkind), j, rng)
    return sink


def run(ctx):
    ctx.rule("one case = a pair of construction histories of one container type: (canonical history, variant history "
             "ending in the same content, incl. histories whose weights / metadata are written by set_weight and the "
             "metadata setters with int, float and bool values) for the equality direction, (canonical history of a content, history of the "
             "content with one element edited) for the difference direction; contents enumerated over small universes, "
             "then seeded random larger ones; non-trivial = the content has at least one node")
    ctx.assume("the public getters report the content of a container faithfully (C01-C04); two objects have the same "
               "content iff their deep snapshots through these getters are equal")
    ctx.assume("SHA-256 collisions do not occur on the explored inputs")
    configs = [(k, w, l) for k in "HDTM" for w in (False, True) for l in ("int", "str")]
    tasks = [("small",) + c + (p,) for c in configs for p in range(N_PARTS)]
    tasks += [("random",) + c + (p,) for c in configs for p in range(N_PARTS)]
    base.run_tasks(ctx, _worker, [(ctx.seed, ctx.quick, t) for t in tasks])
    ctx.exhaustive_parts.append("all contents of each of the 4 types x {weighted, unweighted} x {int, str labels} over "
                                "the universes / record counts %r (n, k), each with every listed history variant and "
                                "every single-element edit" % (plans(ctx.quick),))


def replay(data):
    rep = base.Rep()
    if data["part"] == "equal":
        st = equal_case(rep, data["a"], data["b"], data.get("name", ""), pure=True)
    elif data["part"] == "differ":
        st = _differ_replay(rep, data)
    else:
        return True, "unknown replay record"
    failed = sorted(set(rep.failed))
    key = data.get("key")
    if key is not None and key not in failed:
        return True, f"the recorded clause holds on this input ({st})" + ("; other failed clauses: " + "; ".join(failed) if failed else "")
    if failed:
        return False, "failed clauses: " + "; ".join(failed)
    return True, f"all clauses hold on this input ({st})"


def _differ_replay(rep, data):
    tname = KINDS[data["a"]["kind"]]
    inp = {"history A": data["a"], "history B": data["b"], "edited element": data.get("name", "")}
    sa, da, err = _obj(rep, data["a"], "", inp, None)
    if sa is None:
        return "history A: " + err
    sb, db, err = _obj(rep, data["b"], "", inp, None)
    if sb is None:
        return err
    if sa == sb:
        return "edit not visible in the public content"
    cl = "different content, different hash"
    short = data.get("name", "").split(" (")[0]
    rep.check(da != db, FN, cl, inp, key=f"{FN}:{cl} [{tname}; {short} differs]")
    return "done"
