"""C11 - motif census equals exhaustive enumeration and is relabelling-invariant (bounded tier).

Functions under contract (observed only through their return value ``['observed']``):
``hypergraphx.motifs.motifs.compute_motifs(h, order, runs_config_model=0)`` for order in {3, 4} and
``hypergraphx.motifs.directed_motifs.compute_directed_motifs(h, order, runs_config_model=0)`` for order in {3, 4}.

Oracle (written from the statement, plain sets/tuples, shares nothing with the implementation): for an undirected
hypergraph visit EVERY k-subset S of its nodes (k = order), take the hyperedges e with 2 <= |e| and e a subset of S,
keep S when those hyperedges connect all k nodes of S, and name the pattern by the minimum, over the k! bijections
S -> {1..k}, of the sorted tuple of sorted relabelled hyperedges.  The classes of connected patterns are enumerated
the same way from all subsets of the 4 (k=3) / 11 (k=4) possible hyperedges on {1..k}; the module refuses to run
unless this independent enumeration yields 6 and 171 classes.  A reported pattern is mapped to its class with the same
canonical form, so the implementation is free to choose any representative.  For directed hypergraphs the statement
does not say which node subsets are visited, hence NO count oracle: only (a) invariance of the census under
relabelling / insertion order, (b) every reported pattern equals the lexicographic minimum over the k! node
permutations of the sorted tuple of (sorted sources, sorted targets), (c) adding hyperedges with more than k nodes
changes nothing.

Scope.  Exhaustive:
  * undirected, order 3: all 2048 hypergraphs on nodes 0..3 (every subset of the 11 hyperedges of size >= 2), each
    also under all 24 relabellings (quick: under the three adjacent transpositions, which generate S4 - on a complete
    space closed under relabelling that implies all 24) and 2 (quick) / 10 (thorough) insertion orders; the same 2048 with one (quick) / every
    (thorough: 16) subset of the four singleton hyperedges added; all hypergraphs on nodes 0..4 with hyperedges of
    size 2..3 and at most 4 (quick) / 7 (thorough) hyperedges, and those with at most 4 (quick) / 5 (thorough) once more
    with one non-empty subset of the five singleton hyperedges added (which of the 31: a function of the hypergraph and
    the seed).
  * undirected, order 4: all hypergraphs on nodes 0..3 with at most 3 hyperedges (quick) / all 2048 (thorough);
    thorough also all hypergraphs on nodes 0..4 with hyperedges of size 2..4 and at most 3 hyperedges.  These spaces are
    closed under relabelling and the oracle is label-invariant by construction, so census equality on all of them
    subsumes relabelling invariance for N = 4 (N = 5 within the cap); explicit all-permutation runs for order 4 are done
    on N = 5 random hypergraphs only (one call costs ~0.45 s).
  * undirected, order 4, hyperedges of size ONE next to the others (sizes 1..6 are inside the quantifier; the oracle
    does not use them - "taking the hyperedges of size at least two" - and the clause that fails is the census clause):
    every hypergraph of the 4-node space of the previous item once more with one non-empty subset of the four singleton
    hyperedges added (which of the 15 rotates with the position in the enumeration and the seed, so every subset
    occurs next to every kind of size-2/3/4 hyperedge).  Because a call costs ~0.45 s whatever the input, FOUR of these
    are evaluated in one call as a disjoint union (member i on nodes 4i..4i+3; 58 unions in quick, 512 in thorough); the
    oracle is the plain census of the 16-node union (all 1820 node subsets), so nothing is assumed about unions - but
    opposite errors in two members of a union could cancel.  Thorough therefore also runs those with at most 3
    hyperedges of size >= 2 (one singleton subset) each on its own, and adds those with at most 2 hyperedges of size >= 2
    with EVERY subset of the singleton hyperedges (again as unions of four).
  * directed, order 3: all 4096 directed hypergraphs on nodes 0..2 (12 possible hyperedges with disjoint non-empty
    source/target) under all 6 relabellings; orders 3 and 4: all directed hypergraphs on nodes 0..3 (50 possible
    hyperedges) with at most 2 hyperedges under all 24 relabellings; thorough adds all those with exactly 3
    hyperedges under the three adjacent transpositions (they generate S4 and the space is closed under relabelling, so
    invariance under them on the whole space implies invariance under all 24).  Orders 3 and 4: the 4-node space with at
    most 2 hyperedges once more with a non-empty set of ONE-NODE hyperedges added ({v} -> {} or {} -> {v}; source and
    target are disjoint, so they are inside the quantifier; which of the 255 sets: a function of the hypergraph and the
    seed), under the three adjacent transpositions (quick) / all 24 relabellings (thorough).  The statement does not say what a one-node directed hyperedge contributes, so
    only the clauses (a)-(c) are evaluated on these inputs as on all directed ones.
Sampled (seeded): undirected and directed hypergraphs on 3..7 nodes, labels 0..N-1 / scattered / negative / huge
integers, hyperedge sizes 1..6, isolated nodes, weighted and unweighted, dyadic-dense ones for the ESU pass; every
permutation of the labels when N <= 5, else 30 random ones (order 4: 10 in quick); 10 insertion orders (hyperedge order,
node order inside a hyperedge, constructor vs add_edge, isolated nodes first / last); hyperedges larger than the order
added to an existing hypergraph.  In the general generator a hyperedge has size one with probability ~1/21 only, so
a second generator ("size-one") makes hypergraphs with overlapping hyperedges of size 2..5 (mostly 2 and 3) and puts a
hyperedge {v} on about half of the nodes v of the size-2/3 hyperedges (at least one; sometimes one more on a node that
lies in no other hyperedge); its directed counterpart adds 1..3 one-node hyperedges ({v} -> {} / {} -> {v}) to a random
directed hypergraph.  Budgets are counts, quick / thorough:
  order 3 and directed (a call costs < 1 ms): 300 / 4000 undirected, 100 / 1000 undirected "size-one", 200 / 3000
    directed and 60 / 600 directed with one-node hyperedges, each with ALL of the variants above (directed ones for both
    orders);
  order 4 undirected (a call costs ~0.45 s because the implementation rebuilds its 171-class table three times per
    call; ~570 / ~9700 calls in total): census of 40 / 1000 random hypergraphs and of 12 / 100 "size-one" ones; all 119
    non-identity permutations of 1 / 6 random 5-node hypergraphs and 10 / 30 random permutations of 3 / 30 on 6..7
    nodes; 10 insertion orders of 3 / 80; larger hyperedges added to 6 / 100; 5 relabellings and 5 insertion orders of
    2 / 12 "size-one" ones.
A few degenerate inputs (empty, isolated nodes only, singleton hyperedges only, fewer nodes than the order, singleton
hyperedges on the nodes of a size-3 + size-2 / star / size-4 pattern, one-node directed hyperedges only and next to a
cycle / a 3-node hyperedge) are run for both functions and both orders.

Limits.  Bounded evidence only: N <= 7 nodes (the disjoint unions of four 4-node hypergraphs have 16).  Non-integer labels are outside the quantifier and not tried.  The
configuration-model part of the output (runs_config_model > 0) is not C11.  The statement gives no definition of WHICH
directed node subsets are counted, so directed counts are only checked for invariance, not for value.  Directed
hyperedges with an empty source or target on TWO OR MORE nodes are not generated: the statement is silent about them
(on /repo they make the census report patterns on fewer than `order` nodes, e.g. the empty pattern () with count 1 for
the single hyperedge {1,2,3} -> {} at order 3; whether such a hyperedge is admissible at all is not C11's business).
An exception raised by the function under test on an admissible input is reported as a failed clause
"does not raise on admissible input"; an exception while *building* the input hypergraph is another property's
business and the case is skipped (counter `skipped_build_raised`).
"""
import itertools
import multiprocessing
import random
import sys
from itertools import combinations, permutations

PROPERTY = "C11"

F_U = "motifs.compute_motifs"
F_D = "directed_motifs.compute_directed_motifs"
CL_RAISE = "does not raise on admissible input"
CL_ONCE = "every isomorphism class of connected patterns is reported exactly once"
CL_CENSUS = "observed counts = brute-force census over all node subsets"
CL_LABEL = "counts do not depend on node labels"
CL_ORDER = "counts do not depend on hyperedge insertion order"
CL_LARGE = "hyperedges larger than the order are ignored"
CL_D_CANON = "every reported pattern is its class's canonical representative"
CL_D_LABEL = "census depends only on the isomorphism type (relabelling)"
CL_D_ORDER = "census depends only on the isomorphism type (insertion order)"
CL_D_LARGE = "hyperedges with more nodes than the order are ignored"

STATED_CLASSES = {3: 6, 4: 171}
_MODES = ["constructor, isolated nodes last", "add_edge one by one, isolated nodes first"]
MAX_FAILS_PER_TASK = 4


# ----------------------------------------------------------------------------------------------------------------
# oracle: plain python, written from the statement
# ----------------------------------------------------------------------------------------------------------------
_PERMS = {k: list(permutations(range(1, k + 1))) for k in (3, 4)}
_CLASS_CACHE = {}


def _connects(k, pattern):
    """Do the hyperedges of `pattern` (tuples over 1..k) connect all of 1..k ?"""
    comp = {v: v for v in range(1, k + 1)}

    def find(v):
        while comp[v] != v:
            v = comp[v]
        return v

    for e in pattern:
        r = find(e[0])
        for v in e[1:]:
            comp[find(v)] = r
            r = find(e[0])
    return len({find(v) for v in range(1, k + 1)}) == 1


def _class_of(k, pattern):
    """pattern: frozenset of sorted tuples over 1..k (sizes >= 2).  None when the pattern does not connect 1..k,
    else its canonical form = minimum over the k! relabellings."""
    key = (k, pattern)
    if key in _CLASS_CACHE:
        return _CLASS_CACHE[key]
    if not pattern or not _connects(k, pattern):
        res = None
    else:
        res = min(tuple(sorted(tuple(sorted(p[v - 1] for v in e)) for e in pattern)) for p in _PERMS[k])
    _CLASS_CACHE[key] = res
    return res


_CLASSES = {}


def _classes(k):
    """All isomorphism classes of connected patterns on k nodes, enumerated independently of the implementation."""
    if k not in _CLASSES:
        possible = [e for r in range(2, k + 1) for e in combinations(range(1, k + 1), r)]
        found = set()
        for mask in range(1 << len(possible)):
            c = _class_of(k, frozenset(possible[i] for i in range(len(possible)) if mask >> i & 1))
            if c is not None:
                found.add(c)
        if len(found) != STATED_CLASSES[k]:
            raise RuntimeError(f"C11 oracle self-check: {len(found)} classes of order {k}, statement says "
                               f"{STATED_CLASSES[k]}")
        _CLASSES[k] = found
    return _CLASSES[k]


def _census(k, edges, isolated):
    """Brute force of the statement: dict class -> number of k-subsets of the nodes carrying that class."""
    esets = {frozenset(e) for e in edges}
    nodes = set(isolated)
    for e in esets:
        nodes |= e
    usable = [e for e in esets if 2 <= len(e) <= k]
    out = {}
    for S in combinations(sorted(nodes), k):
        sset = set(S)
        pos = {v: i + 1 for i, v in enumerate(S)}
        pat = frozenset(tuple(sorted(pos[v] for v in e)) for e in usable if e <= sset)
        c = _class_of(k, pat)
        if c is not None:
            out[c] = out.get(c, 0) + 1
    return out


def _class_of_reported(k, pattern):
    """Class of a pattern as written by the implementation (any labels), None if it is not a connected k-node pattern."""
    try:
        es = [tuple(e) for e in pattern]
        nodes = sorted(set(itertools.chain(*es)))
        if len(nodes) != k or any(len(e) < 2 or len(set(e)) != len(e) for e in es):
            return None
        pos = {v: i + 1 for i, v in enumerate(nodes)}
        pat = frozenset(tuple(sorted(pos[v] for v in e)) for e in es)
        if len(pat) != len(es):
            return None
        return _class_of(k, pat)
    except Exception:
        return None


def _dcanon(k, pattern):
    """Directed: lexicographic minimum over the k! node permutations.  pattern: iterable of (src, tgt) over k nodes
    (any labels).  None if the pattern does not have exactly k nodes."""
    try:
        es = [(tuple(s), tuple(t)) for s, t in pattern]
        nodes = sorted(set(v for s, t in es for v in s + t))
    except Exception:
        return None
    if len(nodes) != k:
        return None
    best = None
    for p in _PERMS[k]:
        m = dict(zip(nodes, p))
        form = tuple(sorted((tuple(sorted(m[v] for v in s)), tuple(sorted(m[v] for v in t))) for s, t in es))
        if best is None or form < best:
            best = form
    return best


# ----------------------------------------------------------------------------------------------------------------
# running the real code
# ----------------------------------------------------------------------------------------------------------------
class _Null:
    def write(self, s):
        return len(s)

    def flush(self):
        pass


_NULL = _Null()


def _quiet(fn, *a, **kw):
    old = sys.stdout
    sys.stdout = _NULL
    try:
        return fn(*a, **kw)
    finally:
        sys.stdout = old


class _BuildError(Exception):
    pass


def _build_u(edges, isolated, weighted, mode):
    from hypergraphx import Hypergraph
    es = [tuple(e) for e in edges]
    ws = [1.0 + 0.5 * (i % 3) for i in range(len(es))]
    try:
        if mode == 0:
            h = _quiet(Hypergraph, es, weighted=True, weights=ws) if weighted else _quiet(Hypergraph, es)
            for v in isolated:
                h.add_node(v)
        else:
            h = Hypergraph(weighted=weighted)
            for v in isolated:
                h.add_node(v)
            for i, e in enumerate(es):
                if weighted:
                    h.add_edge(e, ws[i])
                else:
                    h.add_edge(e)
        return h
    except Exception as ex:
        raise _BuildError(repr(ex))


def _build_d(edges, isolated, mode):
    from hypergraphx import DirectedHypergraph
    es = [(tuple(s), tuple(t)) for s, t in edges]
    try:
        if mode == 0:
            h = _quiet(DirectedHypergraph, es)
            for v in isolated:
                h.add_node(v)
        else:
            h = DirectedHypergraph()
            for v in isolated:
                h.add_node(v)
            for e in es:
                h.add_edge(e)
        return h
    except Exception as ex:
        raise _BuildError(repr(ex))


def _observe_u(h, order):
    """-> ('ok', observed) | ('raise', type name, repr)"""
    from hypergraphx.motifs.motifs import compute_motifs
    try:
        out = _quiet(compute_motifs, h, order, runs_config_model=0)
        return ("ok", out["observed"])
    except Exception as ex:
        return ("raise", type(ex).__name__, repr(ex)[:300])


def _observe_d(h, order):
    from hypergraphx.motifs.directed_motifs import compute_directed_motifs
    try:
        out = _quiet(compute_directed_motifs, h, order, runs_config_model=0)
        return ("ok", out["observed"])
    except Exception as ex:
        return ("raise", type(ex).__name__, repr(ex)[:300])


# ----------------------------------------------------------------------------------------------------------------
# contract evaluation of one task (base hypergraph + variants); pure function of the task -> also used by replay
# ----------------------------------------------------------------------------------------------------------------
class _Acc:
    def __init__(self):
        self.cases, self.tally, self.fails, self.counters = [], {}, [], {}

    def case(self, desc, nontrivial=True):
        self.cases.append((desc, nontrivial))

    def count(self, name, n=1):
        self.counters[name] = self.counters.get(name, 0) + n

    def check(self, cond, function, clause, input, expected=None, observed=None, key=None, replay=None):
        name = f"{function}:{clause}"
        self.tally[name] = self.tally.get(name, 0) + 1
        if not cond and len(self.fails) < MAX_FAILS_PER_TASK:
            self.fails.append(dict(function=function, clause=clause, input=input, expected=expected, observed=observed,
                                   key=key, replay=replay))
        return cond

    def result(self):
        return dict(cases=self.cases, tally=self.tally, fails=self.fails, counters=self.counters)


def _fmt_counts(d):
    return {repr(c): n for c, n in sorted(d.items(), key=repr)}


def _diff(exp, obs):
    keys = sorted(set(exp) | set(obs), key=repr)
    return ({repr(c): exp.get(c, 0) for c in keys if exp.get(c, 0) != obs.get(c, 0)},
            {repr(c): obs.get(c, 0) for c in keys if exp.get(c, 0) != obs.get(c, 0)})


def _u_counts(acc, order, observed, inp, rep, check_once):
    """Map the reported list to {class: count}; evaluates the 'reported exactly once' clause when asked."""
    classes, counts, ok = [], {}, True
    try:
        for item in observed:
            pattern, n = item
            c = _class_of_reported(order, pattern)
            classes.append(c)
            if c is not None:
                counts[c] = counts.get(c, 0) + n
    except Exception:
        ok = False
    if check_once:
        good = ok and None not in classes and len(classes) == len(set(classes)) and set(classes) == _classes(order)
        nbad = sum(1 for c in classes if c is None)
        acc.check(good, F_U, CL_ONCE, inp,
                  expected=f"{len(_classes(order))} entries, one per class",
                  observed=f"{len(classes)} entries, {len(set(c for c in classes if c is not None))} distinct classes, "
                           f"{nbad} not a connected order-{order} pattern" if ok else "malformed 'observed' list",
                  replay=rep)
    return counts if ok else None


def _nz(d):
    return {c: n for c, n in d.items() if n != 0}


def eval_u(t):
    """t: order, edges, isolated, weighted, maps [[old,new]..], shuffles [edge lists], extras [edge lists], census(bool)"""
    acc = _Acc()
    order, edges, isolated = t["order"], [list(e) for e in t["edges"]], list(t.get("isolated", []))
    weighted = bool(t.get("weighted", False))
    base_in = dict(order=order, edges=edges, isolated=isolated, weighted=weighted)

    def rep(**variant):
        r = dict(kind="u", order=order, edges=edges, isolated=isolated, weighted=weighted, maps=[], shuffles=[],
                 extras=[], census=False)
        r.update(variant)
        return r

    def run(es, iso, mode, inp, rp):
        """-> counts dict or None (raise reported / build skipped)"""
        try:
            h = _build_u(es, iso, weighted, mode)
        except _BuildError:
            acc.count("skipped_build_raised")
            return None, None
        r = _observe_u(h, order)
        acc.check(r[0] == "ok", F_U, CL_RAISE, inp, expected="a result", observed=r[2] if r[0] != "ok" else None,
                  key=f"{F_U}:{CL_RAISE}:{r[1]}" if r[0] != "ok" else None, replay=rp)
        if r[0] != "ok":
            return None, None
        return r[1], h

    expected = _census(order, edges, isolated)
    nontrivial = bool(expected)
    acc.case(dict(fn="compute_motifs", **base_in), nontrivial)
    observed, _h = run(edges, isolated, 0, base_in, rep(census=True))
    if observed is None:
        return acc.result()
    do_census = t.get("census", True)
    base = _u_counts(acc, order, observed, base_in, rep(census=True), check_once=do_census)
    if base is None:
        return acc.result()
    if do_census:
        e, o = _diff(expected, _nz(base))
        acc.check(_nz(base) == expected, F_U, CL_CENSUS, base_in, expected=e, observed=o, replay=rep(census=True))

    for mp in t.get("maps", []):
        m = {a: b for a, b in mp}
        es = [[m[v] for v in e] for e in edges]
        iso = [m[v] for v in isolated]
        inp = dict(base_in, relabelling=[list(x) for x in mp])
        acc.case(dict(fn="compute_motifs", order=order, edges=es, isolated=iso, weighted=weighted, variant="relabel"),
                 nontrivial)
        ob, _ = run(es, iso, 0, inp, rep(maps=[mp]))
        if ob is None:
            continue
        cn = _u_counts(acc, order, ob, inp, rep(maps=[mp]), check_once=False)
        if cn is None:
            acc.check(False, F_U, CL_LABEL, inp, expected=_fmt_counts(_nz(base)), observed="malformed", replay=rep(maps=[mp]))
            continue
        e, o = _diff(_nz(base), _nz(cn))
        acc.check(_nz(cn) == _nz(base), F_U, CL_LABEL, inp, expected=e, observed=o, replay=rep(maps=[mp]))

    for mode, sh in t.get("shuffles", []):
        es = [list(e) for e in sh]
        inp = dict(base_in, inserted_as=es, insertion_mode=_MODES[mode])
        acc.case(dict(fn="compute_motifs", order=order, edges=es, isolated=isolated, weighted=weighted,
                      variant=["insert", mode]), nontrivial)
        try:
            h = _build_u(es, isolated, weighted, mode)
        except _BuildError:
            acc.count("skipped_build_raised")
            continue
        r = _observe_u(h, order)
        rp = rep(shuffles=[[mode, es]])
        acc.check(r[0] == "ok", F_U, CL_RAISE, inp, expected="a result", observed=r[2] if r[0] != "ok" else None,
                  key=f"{F_U}:{CL_RAISE}:{r[1]}" if r[0] != "ok" else None, replay=rp)
        if r[0] != "ok":
            continue
        cn = _u_counts(acc, order, r[1], inp, rp, check_once=False)
        if cn is None:
            acc.check(False, F_U, CL_ORDER, inp, expected=_fmt_counts(_nz(base)), observed="malformed", replay=rp)
            continue
        e, o = _diff(_nz(base), _nz(cn))
        acc.check(_nz(cn) == _nz(base), F_U, CL_ORDER, inp, expected=e, observed=o, replay=rp)

    for ex in t.get("extras", []):
        ex = [list(e) for e in ex]
        if not ex:
            continue
        es = edges + ex
        inp = dict(base_in, added_larger_hyperedges=ex)
        acc.case(dict(fn="compute_motifs", order=order, edges=es, isolated=isolated, weighted=weighted, variant="larger"),
                 nontrivial)
        ob, _ = run(es, isolated, 0, inp, rep(extras=[ex]))
        if ob is None:
            continue
        cn = _u_counts(acc, order, ob, inp, rep(extras=[ex]), check_once=False)
        if cn is None:
            acc.check(False, F_U, CL_LARGE, inp, expected=_fmt_counts(_nz(base)), observed="malformed", replay=rep(extras=[ex]))
            continue
        e, o = _diff(_nz(base), _nz(cn))
        acc.check(_nz(cn) == _nz(base), F_U, CL_LARGE, inp, expected=e, observed=o, replay=rep(extras=[ex]))
    return acc.result()


def _d_counts(order, observed):
    """{my canonical class: count}, list of non-canonical reported patterns; None if malformed."""
    counts, bad = {}, []
    try:
        for pattern, n in observed:
            c = _dcanon(order, pattern)
            shown = tuple((tuple(s), tuple(t)) for s, t in pattern)
            if c is None or c != shown:
                bad.append((shown, c))
            key = c if c is not None else ("?", shown)
            counts[key] = counts.get(key, 0) + n
    except Exception:
        return None, None
    return counts, bad


def eval_d(t):
    """t: order, edges [[src,tgt]..], isolated, maps, shuffles, extras"""
    acc = _Acc()
    order = t["order"]
    edges = [[list(s), list(tg)] for s, tg in t["edges"]]
    isolated = list(t.get("isolated", []))
    base_in = dict(order=order, edges=edges, isolated=isolated)

    def rep(**variant):
        r = dict(kind="d", order=order, edges=edges, isolated=isolated, maps=[], shuffles=[], extras=[])
        r.update(variant)
        return r

    def run(es, iso, mode, inp, rp, canon_clause):
        try:
            h = _build_d(es, iso, mode)
        except _BuildError:
            acc.count("skipped_build_raised")
            return None
        r = _observe_d(h, order)
        acc.check(r[0] == "ok", F_D, CL_RAISE, inp, expected="a result", observed=r[2] if r[0] != "ok" else None,
                  key=f"{F_D}:{CL_RAISE}:{r[1]}" if r[0] != "ok" else None, replay=rp)
        if r[0] != "ok":
            return None
        counts, bad = _d_counts(order, r[1])
        if canon_clause:
            acc.check(counts is not None and not bad, F_D, CL_D_CANON, inp,
                      expected=[b[1] for b in bad[:3]] if bad else "list of (pattern, count)",
                      observed=[b[0] for b in bad[:3]] if bad else "malformed 'observed'", replay=rp)
        return counts

    base = run(edges, isolated, 0, base_in, rep(), True)
    nontrivial = bool(base)
    acc.case(dict(fn="compute_directed_motifs", **base_in), nontrivial)
    if base is None:
        return acc.result()

    def compare(cn, clause, inp, rp):
        if cn is None:
            return
        e, o = _diff(base, cn)
        acc.check(cn == base, F_D, clause, inp, expected=e, observed=o, replay=rp)

    for mp in t.get("maps", []):
        m = {a: b for a, b in mp}
        es = [[[m[v] for v in s], [m[v] for v in tg]] for s, tg in edges]
        iso = [m[v] for v in isolated]
        inp = dict(base_in, relabelling=[list(x) for x in mp])
        acc.case(dict(fn="compute_directed_motifs", order=order, edges=es, isolated=iso, variant="relabel"), nontrivial)
        compare(run(es, iso, 0, inp, rep(maps=[mp]), True), CL_D_LABEL, inp, rep(maps=[mp]))

    for mode, sh in t.get("shuffles", []):
        es = [[list(s), list(tg)] for s, tg in sh]
        inp = dict(base_in, inserted_as=es, insertion_mode=_MODES[mode])
        acc.case(dict(fn="compute_directed_motifs", order=order, edges=es, isolated=isolated, variant=["insert", mode]),
                 nontrivial)
        rp = rep(shuffles=[[mode, es]])
        compare(run(es, isolated, mode, inp, rp, False), CL_D_ORDER, inp, rp)

    for ex in t.get("extras", []):
        ex = [[list(s), list(tg)] for s, tg in ex]
        if not ex:
            continue
        es = edges + ex
        inp = dict(base_in, added_larger_hyperedges=ex)
        acc.case(dict(fn="compute_directed_motifs", order=order, edges=es, isolated=isolated, variant="larger"), nontrivial)
        compare(run(es, isolated, 0, inp, rep(extras=[ex]), False), CL_D_LARGE, inp, rep(extras=[ex]))
    return acc.result()


# ----------------------------------------------------------------------------------------------------------------
# task generation
# ----------------------------------------------------------------------------------------------------------------
def _all_maps(nodes):
    nodes = sorted(nodes)
    return [[[a, b] for a, b in zip(nodes, p)] for p in permutations(nodes) if list(p) != nodes]


def _generator_maps(nodes):
    """the n-1 adjacent transpositions: they generate the symmetric group, so on a space of hypergraphs that is closed
    under relabelling and enumerated completely, invariance under these implies invariance under every permutation"""
    nodes = sorted(nodes)
    out = []
    for i in range(len(nodes) - 1):
        p = list(nodes)
        p[i], p[i + 1] = p[i + 1], p[i]
        out.append([[a, b] for a, b in zip(nodes, p)])
    return out


def _random_maps(rng, nodes, count):
    nodes = sorted(nodes)
    out = []
    while len(out) < count:
        p = list(nodes)
        rng.shuffle(p)
        if p != nodes:
            out.append([[a, b] for a, b in zip(nodes, p)])
    return out


def _maps_for(rng, nodes, n_random):
    nodes = sorted(nodes)
    if len(nodes) <= 5:
        return _all_maps(nodes)
    return _random_maps(rng, nodes, n_random)


def _shuffles_u(rng, edges, count):
    out = []
    for i in range(count):
        es = [list(e) for e in edges]
        rng.shuffle(es)
        for e in es:
            rng.shuffle(e)
        out.append([i % 2, es])
    return out


def _shuffles_d(rng, edges, count):
    out = []
    for i in range(count):
        es = [[list(s), list(t)] for s, t in edges]
        rng.shuffle(es)
        for e in es:
            rng.shuffle(e[0])
            rng.shuffle(e[1])
        out.append([i % 2, es])
    return out


def _labels(rng, n):
    style = rng.randrange(5)
    if style == 0:
        return list(range(n))
    if style == 1:
        return rng.sample(range(1, 40), n)
    if style == 2:
        return rng.sample(range(-15, 15), n)
    if style == 3:
        return [10 ** 9 + 7 * x for x in rng.sample(range(50), n)]
    return rng.sample(range(0, 2 * n + 1), n)


_SIZE_WEIGHTS = [(1, 1), (2, 8), (3, 6), (4, 4), (5, 1), (6, 1)]


def _pick_size(rng, n, weights=_SIZE_WEIGHTS):
    ws = [(s, w) for s, w in weights if s <= n]
    x = rng.randrange(sum(w for _, w in ws))
    for s, w in ws:
        if x < w:
            return s
        x -= w


def _random_u(rng, nmin=3, nmax=7):
    n = rng.randint(nmin, nmax)
    labels = _labels(rng, n)
    style = rng.randrange(4)
    edges = set()
    if style == 0:  # dyadic-dense skeleton plus a few larger hyperedges (exercises the ESU pass next to the others)
        p = rng.choice([0.3, 0.5, 0.7, 0.9])
        for a, b in combinations(labels, 2):
            if rng.random() < p:
                edges.add(frozenset((a, b)))
        for _ in range(rng.randint(0, 3)):
            edges.add(frozenset(rng.sample(labels, _pick_size(rng, n))))
    elif style == 1:  # mostly size 3 and 4
        for _ in range(rng.randint(1, n + 3)):
            edges.add(frozenset(rng.sample(labels, _pick_size(rng, n, [(2, 2), (3, 6), (4, 6), (5, 1), (6, 1)]))))
    else:
        for _ in range(rng.randint(1, 2 * n)):
            edges.add(frozenset(rng.sample(labels, _pick_size(rng, n))))
    edges = [sorted(e) for e in sorted(edges, key=lambda e: (len(e), sorted(e)))]
    rng.shuffle(edges)
    used = set(v for e in edges for v in e)
    isolated = []
    if rng.random() < 0.25:
        pool = [v for v in range(-3, 45) if v not in used]
        isolated = rng.sample(pool, rng.randint(1, 2))
    if len(used) + len(isolated) > 7:
        isolated = isolated[:max(0, 7 - len(used))]
    return dict(edges=edges, isolated=isolated, weighted=rng.random() < 0.25)


def _random_u_single(rng, nmin=4, nmax=7):
    """Hyperedges of size ONE next to the others: a random hypergraph with overlapping hyperedges of size 2..5 (mostly 2
    and 3, at least one of size 2 or 3), plus a hyperedge {v} on every node v of a size-2/3 hyperedge with probability
    1/2 (at least one such), sometimes also a {w} on a node w that lies in no other hyperedge.  At most 7 nodes."""
    n = rng.randint(nmin, nmax)
    labels = _labels(rng, n)
    weights = rng.choice([[(2, 6), (3, 6), (4, 2), (5, 1)], [(2, 3), (3, 8), (4, 1)], [(2, 8), (3, 2), (4, 2)]])
    edges = set()
    for _ in range(rng.randint(2, n + 3)):
        edges.add(frozenset(rng.sample(labels, _pick_size(rng, n, weights))))
    if not any(len(e) in (2, 3) for e in edges):
        edges.add(frozenset(rng.sample(labels, rng.randint(2, 3))))
    hosts = sorted(set(v for e in edges if len(e) in (2, 3) for v in e))
    singles = [v for v in hosts if rng.random() < 0.5] or [rng.choice(hosts)]
    used = set(v for e in edges for v in e)
    if len(used) < 7 and rng.random() < 0.2:
        singles.append(rng.choice([v for v in range(-3, 45) if v not in used]))
    edges = [sorted(e) for e in sorted(edges, key=lambda e: (len(e), sorted(e)))] + [[v] for v in singles]
    rng.shuffle(edges)
    return dict(edges=edges, isolated=[], weighted=rng.random() < 0.25)


def _larger_u(rng, order, nodes, howmany, present=()):
    """hyperedges of size > order (<= 6), not yet present, over the existing nodes plus up to two new ones"""
    pool = sorted(nodes)
    fresh = [v for v in range(100, 110) if v not in nodes]
    pool = pool + fresh[:max(0, order + 1 - len(pool)) + rng.randint(0, 2)]
    out = set()
    for _ in range(howmany):
        s = rng.randint(order + 1, min(6, len(pool)))
        out.add(frozenset(rng.sample(pool, s)))
    out -= {frozenset(e) for e in present}
    return [sorted(e) for e in sorted(out, key=sorted)]


def _random_d(rng, nmin=3, nmax=7):
    n = rng.randint(nmin, nmax)
    labels = _labels(rng, n)
    edges = set()
    weights = rng.choice([[(2, 6), (3, 8), (4, 6), (5, 1), (6, 1)], [(2, 10), (3, 6), (4, 2)], [(3, 5), (4, 5)]])
    for _ in range(rng.randint(1, n + 4)):
        s = _pick_size(rng, n, weights)
        vs = rng.sample(labels, s)
        cut = rng.randint(1, s - 1)
        edges.add((tuple(sorted(vs[:cut])), tuple(sorted(vs[cut:]))))
    edges = [[list(s), list(t)] for s, t in sorted(edges)]
    rng.shuffle(edges)
    used = set(v for s, t in edges for v in s + t)
    isolated = []
    if rng.random() < 0.2 and len(used) < 7:
        isolated = [rng.choice([v for v in range(-3, 45) if v not in used])]
    return dict(edges=edges, isolated=isolated)


def _one_node_d(rng, nodes, howmany):
    """directed hyperedges on ONE node (source {v} and empty target, or the reverse): source and target are disjoint, so
    they are inside the quantifier; only the invariance / canonical-representative clauses are evaluated on them"""
    out = set()
    for _ in range(howmany):
        v = rng.choice(sorted(nodes))
        out.add(((v,), ()) if rng.random() < 0.5 else ((), (v,)))
    return [[list(s), list(t)] for s, t in sorted(out)]


def _larger_d(rng, order, nodes, howmany, present=()):
    pool = sorted(nodes)
    fresh = [v for v in range(100, 110) if v not in nodes]
    pool = pool + fresh[:max(0, order + 1 - len(pool)) + rng.randint(0, 2)]
    out = set()
    for _ in range(howmany):
        s = rng.randint(order + 1, min(6, len(pool)))
        vs = rng.sample(pool, s)
        cut = rng.randint(1, s - 1)
        out.add((tuple(sorted(vs[:cut])), tuple(sorted(vs[cut:]))))
    out -= {(tuple(sorted(s)), tuple(sorted(t))) for s, t in present}
    return [[list(s), list(t)] for s, t in sorted(out)]


def _possible_u(n, smin, smax):
    return [list(e) for r in range(smin, smax + 1) for e in combinations(range(n), r)]


def _possible_d(n):
    out = []
    for r in range(2, n + 1):
        for vs in combinations(range(n), r):
            for a in range(1, r):
                for src in combinations(vs, a):
                    out.append([list(src), [v for v in vs if v not in src]])
    return out


def _index_sets(m, max_edges):
    """all subsets of range(m) with at most max_edges elements, in a fixed order"""
    for r in range(0, min(m, max_edges) + 1):
        for c in combinations(range(m), r):
            yield c


def _chunks(seq, size):
    buf = []
    for x in seq:
        buf.append(x)
        if len(buf) == size:
            yield buf
            buf = []
    if buf:
        yield buf


# ----------------------------------------------------------------------------------------------------------------
# workers
# ----------------------------------------------------------------------------------------------------------------
def _merge(into, res):
    into["cases"].extend(res["cases"])
    for k, v in res["tally"].items():
        into["tally"][k] = into["tally"].get(k, 0) + v
    for k, v in res["counters"].items():
        into["counters"][k] = into["counters"].get(k, 0) + v
    if len(into["fails"]) < 3 * MAX_FAILS_PER_TASK:
        into["fails"].extend(res["fails"])


def _work(task):
    kind = task["kind"]
    if kind == "u":
        return eval_u(task)
    if kind == "d":
        return eval_d(task)
    out = dict(cases=[], tally={}, fails=[], counters={})
    if kind == "xu":
        # exhaustive batch, undirected: index sets into `possible`; variants made here deterministically
        possible, order, n = task["possible"], task["order"], task["n"]
        maps = {"all": _all_maps, "gen": _generator_maps, "none": lambda nodes: []}[task["maps"]](range(n))
        for idx in task["subsets"]:
            edges = [possible[i] for i in idx]
            rng = random.Random(f"C11:{task['seed']}:xu:{order}:{n}:{sorted(idx)}")
            singletons = task["singletons"]
            if singletons == "rotate":  # one non-empty subset of the n hyperedges of size one, a function of idx and the seed
                sng = 1 + (7 * sum(idx) + len(idx) + task["seed"]) % ((1 << n) - 1)
                singletons = [[v for v in range(n) if sng >> v & 1]]
            for singles in singletons:
                t = dict(kind="u", order=order, edges=edges + [[v] for v in singles], isolated=[], weighted=False,
                         maps=maps if not singles else [], extras=[], census=True,
                         shuffles=_shuffles_u(rng, edges, task["n_shuffles"]) if not singles and edges else [])
                _merge(out, eval_u(t))
        return out
    if kind == "xd":
        possible, order, n = task["possible"], task["order"], task["n"]
        maps = _all_maps(range(n)) if task["all_maps"] else _generator_maps(range(n))
        for idx in task["subsets"]:
            edges = [possible[i] for i in idx]
            rng = random.Random(f"C11:{task['seed']}:xd:{order}:{n}:{sorted(idx)}")
            if task.get("one_node"):  # plus one non-empty subset of the 2n one-node hyperedges ({v} -> {} and {} -> {v})
                dg = 1 + (7 * sum(idx) + len(idx) + task["seed"]) % ((1 << 2 * n) - 1)
                edges = edges + [[[v], []] if b < n else [[], [v]] for b in range(2 * n) if dg >> b & 1
                                 for v in [b % n]]
            t = dict(kind="d", order=order, edges=edges, isolated=[], maps=maps, extras=[],
                     shuffles=_shuffles_d(rng, edges, task["n_shuffles"]) if edges else [])
            _merge(out, eval_d(t))
        return out
    raise ValueError(kind)


# ----------------------------------------------------------------------------------------------------------------
# driver
# ----------------------------------------------------------------------------------------------------------------
def _plan(ctx):
    """-> (heavy tasks [one order-4 undirected hypergraph + <= 16 variants each], light tasks [batches])"""
    q = ctx.quick
    seed = ctx.seed
    rng = random.Random(f"C11:{seed}:plan")
    rng1 = random.Random(f"C11:{seed}:plan:size-one")  # own stream for the inputs with hyperedges on one node
    heavy, light = [], []

    # ---- undirected order 4 (one call ~0.45 s): everything is a heavy task with at most ~16 calls
    p4 = _possible_u(4, 2, 4)
    sub4 = list(_index_sets(len(p4), 3)) if q else [tuple(i for i in range(11) if m >> i & 1) for m in range(2048)]
    for idx in sub4:
        heavy.append(dict(kind="u", order=4, edges=[p4[i] for i in idx], isolated=[], weighted=False, census=True))
    if not q:
        p5 = _possible_u(5, 2, 4)
        for idx in _index_sets(len(p5), 3):
            heavy.append(dict(kind="u", order=4, edges=[p5[i] for i in idx], isolated=[], weighted=False, census=True))
    # hyperedges of size ONE on the nodes of subsets that also carry larger hyperedges ("taking the hyperedges of size at
    # least two contained in it"): every hypergraph of the 4-node space above with one non-empty subset of the four
    # singleton hyperedges (which of the 15 rotates with the position and the seed).  A call costs ~0.45 s whatever the
    # input, so four of them are put into ONE hypergraph as a disjoint union (member i on nodes 4i..4i+3; a 4-subset that
    # meets two members is never connected, and the oracle visits all C(16,4) subsets of the union anyway) ...
    def with_singles(idx, sng):
        return [p4[i] for i in idx] + [[v] for v in range(4) if sng >> v & 1]

    def union(members):
        return [[v + 4 * i for v in e] for i, es in enumerate(members) for e in es]

    done = set()
    members = []
    for j, idx in enumerate(sub4):
        sng = 1 + (j + seed) % 15
        members.append(with_singles(idx, sng))
        if not q and len(idx) <= 3:  # thorough: those with at most 3 hyperedges of size >= 2 also on their own
            done.add((idx, sng))
            heavy.append(dict(kind="u", order=4, edges=members[-1], isolated=[], weighted=False, census=True))
    for ch in _chunks(members, 4):
        heavy.append(dict(kind="u", order=4, edges=union(ch), isolated=[], weighted=False, census=True))
    if not q:  # ... thorough: at most 2 hyperedges of size >= 2 with EVERY subset of the singleton hyperedges (unions of 4)
        members = [with_singles(idx, sng) for idx in _index_sets(len(p4), 2) for sng in range(1, 16) if (idx, sng) not in done]
        for ch in _chunks(members, 4):
            heavy.append(dict(kind="u", order=4, edges=union(ch), isolated=[], weighted=False, census=True))
    for _ in range(40 if q else 1000):  # random census (sizes 1..6, isolated, weighted, odd labels)
        g = _random_u(rng, 4, 7)
        heavy.append(dict(kind="u", order=4, census=True, **g))
    for _ in range(12 if q else 100):  # random census, singleton hyperedges on nodes of size-2/3 hyperedges
        heavy.append(dict(kind="u", order=4, census=True, **_random_u_single(rng1, 4, 7)))
    for _ in range(2 if q else 12):  # the same under 5 relabellings and 5 insertion orders
        g = _random_u_single(rng1, 4, 7)
        nodes = sorted(set(v for e in g["edges"] for v in e))
        heavy.append(dict(kind="u", order=4, census=True, maps=_random_maps(rng1, nodes, 5),
                          shuffles=_shuffles_u(rng1, g["edges"], 5), **g))
    n5, nbig, nperm = (1, 3, 10) if q else (6, 30, 30)
    made5 = madebig = 0
    while made5 < n5 or madebig < nbig:  # relabelling
        g = _random_u(rng, 5, 7)
        nodes = sorted(set(v for e in g["edges"] for v in e) | set(g["isolated"]))
        if not _census(4, g["edges"], g["isolated"]):
            continue
        if len(nodes) == 5 and made5 < n5:
            made5 += 1
            maps = _all_maps(nodes)
        elif len(nodes) > 5 and madebig < nbig:
            madebig += 1
            maps = _random_maps(rng, nodes, nperm)
        else:
            continue
        for i, ch in enumerate(_chunks(maps, 15)):
            heavy.append(dict(kind="u", order=4, census=(i == 0), maps=ch, **g))
    for _ in range(3 if q else 80):  # insertion order
        g = _random_u(rng, 4, 7)
        if not _census(4, g["edges"], g["isolated"]):
            g = _random_u(rng, 4, 6)
        heavy.append(dict(kind="u", order=4, census=True, shuffles=_shuffles_u(rng, g["edges"], 10), **g))
    for _ in range(6 if q else 100):  # larger hyperedges ignored
        g = _random_u(rng, 4, 6)
        g["edges"] = [e for e in g["edges"] if len(e) <= 4]
        nodes = set(v for e in g["edges"] for v in e) | set(g["isolated"])
        heavy.append(dict(kind="u", order=4, census=True, extras=[_larger_u(rng, 4, nodes, rng.randint(1, 2), g["edges"])], **g))

    # ---- undirected order 3 (cheap)
    idx_all = [tuple(i for i in range(11) if m >> i & 1) for m in range(2048)]
    for ch in _chunks(idx_all, 32):
        # quick: the 3 adjacent transpositions (generate S4; the space is closed under relabelling and complete)
        light.append(dict(kind="xu", order=3, n=4, possible=p4, subsets=ch, seed=seed, maps="gen" if q else "all",
                          n_shuffles=2 if q else 10, singletons=[[]]))
    if q:
        by = {}
        for m, idx in enumerate(idx_all):
            by.setdefault(1 + m % 15, []).append(idx)
        for sng, subs in sorted(by.items()):
            light.append(dict(kind="xu", order=3, n=4, possible=p4, subsets=subs, seed=seed, maps="none",
                              n_shuffles=0, singletons=[[v for v in range(4) if sng >> v & 1]]))
    else:
        allsing = [[v for v in range(4) if s >> v & 1] for s in range(1, 16)]
        for ch in _chunks(idx_all, 64):
            light.append(dict(kind="xu", order=3, n=4, possible=p4, subsets=ch, seed=seed, maps="none",
                              n_shuffles=0, singletons=allsing))
    p53 = _possible_u(5, 2, 3)
    for ch in _chunks(_index_sets(len(p53), 4 if q else 7), 1024):
        light.append(dict(kind="xu", order=3, n=5, possible=p53, subsets=ch, seed=seed, maps="none", n_shuffles=0,
                          singletons=[[]]))
    for ch in _chunks(_index_sets(len(p53), 4 if q else 5), 1024):  # the same with one non-empty subset of the 5 singleton hyperedges
        light.append(dict(kind="xu", order=3, n=5, possible=p53, subsets=ch, seed=seed, maps="none", n_shuffles=0,
                          singletons="rotate"))
    for _ in range(100 if q else 1000):  # singleton hyperedges on nodes of size-2/3 hyperedges, all variants
        g = _random_u_single(rng1, 3, 7)
        nodes = set(v for e in g["edges"] for v in e)
        base = [e for e in g["edges"] if len(e) <= 3]
        light.append(dict(kind="u", order=3, census=True, maps=_maps_for(rng1, nodes, 30),
                          shuffles=_shuffles_u(rng1, g["edges"], 10),
                          extras=[_larger_u(rng1, 3, set(v for e in base for v in e), rng1.randint(1, 3), g["edges"])], **g))
    for _ in range(300 if q else 4000):
        g = _random_u(rng, 3, 7)
        nodes = set(v for e in g["edges"] for v in e) | set(g["isolated"])
        base = [e for e in g["edges"] if len(e) <= 3]
        light.append(dict(kind="u", order=3, census=True, maps=_maps_for(rng, nodes, 30),
                          shuffles=_shuffles_u(rng, g["edges"], 10),
                          extras=[_larger_u(rng, 3, set(v for e in base for v in e) | set(g["isolated"]), rng.randint(1, 3), g["edges"])],
                          **g))
        # the "larger" variant is relative to the hypergraph WITH its own large hyperedges; also try it on the
        # hypergraph stripped of them (so that base has none and the variant has some)
        light.append(dict(kind="u", order=3, census=True, edges=base, isolated=g["isolated"], weighted=g["weighted"],
                          extras=[[e for e in g["edges"] if len(e) > 3]] if len(base) < len(g["edges"]) else []))

    # ---- degenerate inputs (registered as trivial cases: their census is identically zero)
    for order in (3, 4):
        for g in (dict(edges=[], isolated=[]), dict(edges=[], isolated=[4, 2, 9, 7, 1]), dict(edges=[[3], [5], [8]], isolated=[]),
                  dict(edges=[[1, 2]], isolated=[]), dict(edges=[[6, 2], [2, 4], [2, 4, 6]], isolated=[]),
                  dict(edges=[[6, 2], [2], [2, 4], [6], [2, 4, 6]], isolated=[]),
                  dict(edges=[[3], [1, 2, 3], [3, 4], [4]], isolated=[]), dict(edges=[[5], [1, 5], [5, 7], [5, 9], [9]], isolated=[]),
                  dict(edges=[[8], [2, 4, 6, 8], [2]], isolated=[]), dict(edges=[[1, 2, 3], [4]], isolated=[])):
            light.append(dict(kind="u", order=order, census=True, weighted=False, **g))
        for g in (dict(edges=[], isolated=[]), dict(edges=[], isolated=[4, 2, 9, 7, 1]), dict(edges=[[[1], [2]]], isolated=[5, 6]),
                  dict(edges=[[[1], [2]], [[2], [3]], [[3], [1]]], isolated=[]),
                  dict(edges=[[[1], []], [[], [2]], [[], [1]]], isolated=[3]),
                  dict(edges=[[[1], [2]], [[2], []], [[2], [3]], [[], [3]], [[3], [1]]], isolated=[]),
                  dict(edges=[[[4], []], [[1, 2], [3]], [[3], [4]], [[], [1]]], isolated=[])):
            light.append(dict(kind="d", order=order, maps=_all_maps(sorted(set(v for s, t in g["edges"] for v in s + t) | set(g["isolated"]))), **g))

    # ---- directed
    pd3 = _possible_d(3)
    for ch in _chunks([tuple(i for i in range(12) if m >> i & 1) for m in range(4096)], 128):
        light.append(dict(kind="xd", order=3, n=3, possible=pd3, subsets=ch, seed=seed, n_shuffles=2, all_maps=True))
    pd4 = _possible_d(4)
    for order in (3, 4):
        for ch in _chunks(_index_sets(len(pd4), 2), 64):
            light.append(dict(kind="xd", order=order, n=4, possible=pd4, subsets=ch, seed=seed, n_shuffles=1 if q else 2,
                              all_maps=True))
        for ch in _chunks(_index_sets(len(pd4), 2), 64):  # the same plus a non-empty set of one-node hyperedges
            light.append(dict(kind="xd", order=order, n=4, possible=pd4, subsets=ch, seed=seed, n_shuffles=1 if q else 2,
                              all_maps=not q, one_node=True))
        if not q:  # exactly 3 hyperedges: the three adjacent transpositions (generators) instead of all 24 permutations
            for ch in _chunks(combinations(range(len(pd4)), 3), 256):
                light.append(dict(kind="xd", order=order, n=4, possible=pd4, subsets=ch, seed=seed, n_shuffles=2,
                                  all_maps=False))
    for _ in range(200 if q else 3000):
        g = _random_d(rng, 3, 7)
        nodes = set(v for s, t in g["edges"] for v in s + t) | set(g["isolated"])
        for order in (3, 4):
            keep = [e for e in g["edges"] if len(e[0]) + len(e[1]) <= order]
            big = [e for e in g["edges"] if len(e[0]) + len(e[1]) > order]
            light.append(dict(kind="d", order=order, maps=_maps_for(rng, nodes, 30),
                              shuffles=_shuffles_d(rng, g["edges"], 10),
                              extras=[_larger_d(rng, order, nodes, rng.randint(1, 3), g["edges"])], **g))
            if big:
                light.append(dict(kind="d", order=order, edges=keep, isolated=g["isolated"], extras=[big]))
    for _ in range(60 if q else 600):  # one-node hyperedges ({v} -> {} / {} -> {v}) next to the others
        g = _random_d(rng1, 3, 7)
        nodes = set(v for s, t in g["edges"] for v in s + t) | set(g["isolated"])
        g["edges"] = g["edges"] + _one_node_d(rng1, nodes - set(g["isolated"]), rng1.randint(1, 3))
        rng1.shuffle(g["edges"])
        for order in (3, 4):
            light.append(dict(kind="d", order=order, maps=_maps_for(rng1, nodes, 30),
                              shuffles=_shuffles_d(rng1, g["edges"], 10),
                              extras=[_larger_d(rng1, order, nodes, rng1.randint(1, 3), g["edges"])], **g))
    # longest tasks first (stable), so that the pool drains evenly; the merge order is the task order, hence deterministic
    heavy.sort(key=lambda t: -(1 + len(t.get('maps', [])) + len(t.get('shuffles', [])) + len(t.get('extras', []))))
    return heavy, light


def _input_size(inp):
    edges = inp.get("edges", [])
    flat = repr(edges)
    return (len(edges) + len(inp.get("isolated", [])), len(flat), len(repr(inp)))


def run(ctx):
    from hv import common
    common.use_repo()
    import hypergraphx  # noqa: F401  (imported before the fork so that workers share it)
    import hypergraphx.motifs.motifs  # noqa: F401
    import hypergraphx.motifs.directed_motifs  # noqa: F401

    _classes(3), _classes(4)  # independent count of the classes; raises unless 6 and 171
    ctx.count("oracle_classes_order3", len(_classes(3)))
    ctx.count("oracle_classes_order4", len(_classes(4)))

    ctx.rule("undirected: exhaustive over subsets of the possible hyperedges on 4 nodes (order 3: all 2048, x all 24 "
             "relabellings (quick: x the 3 adjacent transpositions generating S4), x insertion orders, x singleton hyperedges; order 4: all 2048 in thorough, <= 3 hyperedges in "
             "quick; each once more with a non-empty subset of the 4 singleton hyperedges, four at a time as a disjoint union on 16 nodes) and on 5 nodes with a cap on the number of hyperedges (order 3: also with singleton hyperedges); then seeded random hypergraphs on 3..7 nodes, "
             "hyperedge sizes 1..6, labels 0..N-1 / scattered / negative / huge, isolated nodes, weighted or not, each "
             "relabelled by every permutation (N <= 5) or 30 random ones, re-inserted in 10 orders, and extended by "
             "hyperedges larger than the order; a second random family puts hyperedges of size one on the nodes of "
             "hyperedges of size 2/3 (both orders)")
    ctx.rule("directed: all directed hypergraphs on 3 nodes, all on 4 nodes with <= 2 hyperedges, each under every "
             "relabelling (thorough: also all with 3 hyperedges under the adjacent transpositions, which generate S4); seeded random ones on 3..7 nodes with 2..6 nodes per hyperedge; the 4-node space and a random "
             "family also with one-node hyperedges ({v} -> {} / {} -> {v}) added")
    ctx.rule("a case is one call of the function under test; it is non-trivial when the census of its base hypergraph is "
             "not identically zero (undirected: by the brute-force oracle; directed: by the observed census)")
    ctx.assume("the oracle's canonical form (minimum over all k! relabellings of the sorted tuple of sorted hyperedges, "
               "python tuple order) is label-invariant by construction")
    ctx.assume("directed: no count oracle - the statement does not define which node subsets are visited; only "
               "invariance, canonical representatives and 'larger hyperedges ignored' are checked")
    ctx.assume("Hypergraph / DirectedHypergraph constructors, add_edge and add_node build the hypergraph described by "
               "the edge list (C01/C02); a case whose construction raises is skipped")

    heavy, light = _plan(ctx)
    ctx.count("tasks_order4", len(heavy))
    ctx.count("tasks_light", len(light))
    tasks = heavy + light
    nproc = min(16, multiprocessing.cpu_count())
    mp = multiprocessing.get_context("fork")
    best, nfail = {}, 0
    with mp.Pool(nproc) as pool:
        for res in pool.imap(_work, tasks, chunksize=1):
            for desc, nontrivial in res["cases"]:
                ctx.case(desc, nontrivial)
            for name, n in res["tally"].items():
                ctx.contract_evals[name] = ctx.contract_evals.get(name, 0) + n
            for name, n in res["counters"].items():
                ctx.count(name, n)
            for f in res["fails"]:
                k = f["key"] or f"{f['function']}:{f['clause']}"
                best.setdefault(k, []).append((_input_size(f["input"]), nfail, f))
                best[k] = sorted(best[k], key=lambda x: x[:2])[:3]
                nfail += 1
    # report the smallest failing inputs of each kind first (check.py keeps the first violation per key)
    for k in sorted(best):
        for _, _, f in best[k]:
            ctx.fail(f["function"], f["clause"], f["input"], expected=f["expected"], observed=f["observed"],
                     key=f["key"], replay=f["replay"])

    ctx.exhaustive_parts.append("compute_motifs order 3: all 2048 hypergraphs on 4 nodes, each under " +
                                ("the 3 adjacent transpositions (generators of S4)" if ctx.quick else "all 24 relabellings"))
    ctx.exhaustive_parts.append("compute_motifs order 3: all hypergraphs on 5 nodes with hyperedges of size 2..3 and at "
                                "most %d hyperedges" % (4 if ctx.quick else 7))
    ctx.exhaustive_parts.append("compute_motifs order 4: " + ("all hypergraphs on 4 nodes with at most 3 hyperedges"
                                if ctx.quick else "all 2048 hypergraphs on 4 nodes; all on 5 nodes with at most 3 hyperedges") +
                                ("" if ctx.quick else "; all on 4 nodes with at most 2 hyperedges of size >= 2 x all 16 "
                                                      "subsets of the singleton hyperedges (four per call, as a disjoint union)"))
    ctx.exhaustive_parts.append("compute_directed_motifs order 3: all 4096 directed hypergraphs on 3 nodes x 6 relabellings; "
                                "orders 3, 4: all on 4 nodes with at most 2 hyperedges x 24 relabellings" +
                                ("" if ctx.quick else "; all on 4 nodes with 3 hyperedges x 3 generating transpositions"))


def replay(data):
    from hv import common
    common.use_repo()
    _classes(3), _classes(4)
    t = dict(data)
    res = eval_u(t) if t.get("kind") == "u" else eval_d(t)
    if res["fails"]:
        f = res["fails"][0]
        return False, f"{f['function']}: clause '{f['clause']}' fails: expected {f['expected']!r}, observed {f['observed']!r}"
    return True, "all clauses hold on this input (%d clause evaluations)" % sum(res["tally"].values())
