"""C14 -- random generators honour their structural contracts and their seeds (bounded run-time contracts).

Scope (parameter spaces are enumerated, the random outcomes are sampled through seeds 0..19 quick / 0..199 thorough;
the global RNGs of ``random`` and ``numpy.random`` are seeded from a ctx.seed-derived value before every call):

* random_hypergraph / random_uniform_hypergraph: n = 1..8, size->count maps over the sizes 1..min(4, n) with counts
  0..5: every single-size map (also through random_uniform_hypergraph), 40 sampled multi-size maps per n, and in the
  thorough tier *all* 6^k maps (20 seeds each); each with the seed argument (two calls, compared) and once with
  seed=None.
* scale_free_hypergraph: n = 2..8, sampled size->count maps over sizes 1..min(4, n) with counts 0..5 (capped at half
  of C(n, size) so that the requested number of distinct hyperedges exists and is reachable), scale parameters from
  {0.5, 1, 3}, argument modes: all defaults, corr_target in {0, .5, 1} (correlated default / explicit True),
  correlated=False with corr_target omitted, num_shuffles=3, and the documented-rejected combination
  correlated=False + corr_target (registered as a trivial case, skipped when it raises ValueError).  In these calls
  ``scale_by_size`` lists its sizes in the same insertion order as ``edges_by_size`` (itself in a random order).
* scale_free_hypergraph with the two size-keyed dictionaries written in *different* insertion orders: n = 2..8 (sizes
  1..min(4, n), counts 0..5) and n = 12 (sizes 2..5, counts 0..9), 4 (quick) / 10 (thorough) maps per n over >= 2
  sizes in a random insertion order with pairwise distinct counts (each count <= C(n, s)//2 for every size s of the
  map), ``scale_by_size`` with the same keys reversed / rotated / shuffled (never the order of ``edges_by_size``), all
  admissible argument modes above, every 4th seed.  The count clause is evaluated per key of the request (and a size
  that was not requested must have no hyperedge), so pairing the two dictionaries by position instead of by key is
  visible as a wrong number of hyperedges of some size.  (No other generator of this property takes two parallel
  size-keyed arguments; random_hypergraph's and HOADmodel's single dictionaries are already given in random
  insertion orders.)
* HOADmodel: N = 1..8, orders drawn from 0..3 (order <= N), activity vectors all-0, all-1, constant .3/.5, random,
  time in {0, 1, 4, 12} and the default.
* add_random_edge / add_random_edges, random_shuffle / random_shuffle_all_orders on base hypergraphs: *every*
  hypergraph on the nodes 0..3 with <= 3 hyperedges (sizes 1..4; 576 of them), eight hand-written bases (string
  labels, non-contiguous labels, isolated nodes, singleton hyperedges, weighted with node and edge metadata, sizes up
  to 5, edge-less) and seeded random bases on 4..8 nodes; sizes 1..5 (present and absent), order= and size= spelling,
  p in {0, .3, .5, 1}, inplace True/False, preserve_degree True/False, num_edges 0..5, seed argument given or omitted.

Oracle: plain sets/dicts computed from snapshots taken through the public API (get_nodes, get_edges, get_weight,
get_*_metadata) before and after the call; nothing of the implementation's algorithm is reproduced.  The clause
"replacement nodes are drawn only from the rewired hyperedges" is evaluated as the existence of a set R of old
hyperedges of the rewired size with  (vanished hyperedges) <= R,  |R| <= max(#vanished, ceil(p*m)),  and every node of
every new hyperedge in the union of R  (which hyperedges were selected is not observable; any rounding of "a fraction
p" is accepted).

Known limits: the contracts quantify over all random outcomes, only the listed seeds are run.  Whether the samplers
have the *distribution* their names promise is not checked.  add_random_edge(s) re-drawing an existing hyperedge
updates that hyperedge's weight/metadata (documented behaviour of add_edge); weights and metadata are therefore only
compared for hyperedges of sizes other than the requested one.  A call that runs longer than 60 s on these tiny inputs
is reported as non-terminating.
"""
import copy
import hashlib
import itertools
import math
import multiprocessing
import numbers
import os
import random as _pyrandom
import signal
import warnings

from .. import common

PROPERTY = "C14"

_L = {}
_CASES = []          # filled by run() before forking; workers read it copy-on-write
CALL_LIMIT_S = 60


def _load():
    if _L:
        return _L
    common.use_repo()
    import numpy as np
    from hypergraphx import Hypergraph
    from hypergraphx.generation import random as genrandom
    from hypergraphx.generation.scale_free import scale_free_hypergraph
    from hypergraphx.generation.activity_driven import HOADmodel
    _L.update(np=np, Hypergraph=Hypergraph, gr=genrandom, scale_free_hypergraph=scale_free_hypergraph,
              HOADmodel=HOADmodel)
    return _L


def _derive(*parts):
    return int(hashlib.sha1(repr(parts).encode()).hexdigest()[:8], 16)


def _seed_globals(gseed):
    _pyrandom.seed(gseed)
    _L["np"].random.seed(gseed % (2 ** 32))


class _Timeout(Exception):
    pass


def _alarm(signum, frame):
    raise _Timeout()


class _limit:
    def __enter__(self):
        try:
            self.old = signal.signal(signal.SIGALRM, _alarm)
            signal.setitimer(signal.ITIMER_REAL, CALL_LIMIT_S)
            self.on = True
        except ValueError:      # not in the main thread
            self.on = False

    def __exit__(self, *a):
        if self.on:
            signal.setitimer(signal.ITIMER_REAL, 0)
            signal.signal(signal.SIGALRM, self.old)
        return False


class _Rec:
    """Worker-side recorder with the ctx.check/ctx.fail interface; merged into the real ctx by the parent."""

    def __init__(self):
        self.clauses, self.fails, self.counts, self.perkey = {}, [], {}, {}

    def check(self, cond, function, clause, input, expected=None, observed=None, key=None, replay=None):
        k = f"{function}:{clause}"
        self.clauses[k] = self.clauses.get(k, 0) + 1
        if not cond:
            self.fail(function, clause, input, expected, observed, key, replay)
        return cond

    def fail(self, function, clause, input, expected=None, observed=None, key=None, replay=None):
        k = key or f"{function}:{clause}"
        self.perkey[k] = self.perkey.get(k, 0) + 1
        if self.perkey[k] <= 2:
            if isinstance(replay, dict):
                replay = dict(replay, _clause=clause)     # lets replay() report the clause that was recorded
            self.fails.append(dict(function=function, clause=clause, input=common.jsonable(input),
                                   expected=common.jsonable(expected), observed=common.jsonable(observed), key=key,
                                   replay=common.jsonable(replay)))

    def count(self, name, n=1):
        self.counts[name] = self.counts.get(name, 0) + n


# ----------------------------------------------------------------------------------------------- snapshots / helpers
def _build(spec):
    """Base hypergraph from a json-native spec: nodes, edges, weights|None, nmeta, emeta."""
    w = spec.get("weights")
    h = _L["Hypergraph"](weighted=w is not None)
    nodes = list(spec["nodes"])
    if spec.get("nmeta"):
        h.add_nodes(nodes, metadata={v: {"name": "n%s" % (v,)} for v in nodes})
    else:
        h.add_nodes(nodes)
    for i, e in enumerate(spec["edges"]):
        h.add_edge(tuple(e), weight=(w[i] if w is not None else None),
                   metadata=({"tag": i} if spec.get("emeta") else None))
    return h


def _snap(h):
    """Deep snapshot through the public API."""
    nodes = {v: copy.deepcopy(h.get_node_metadata(v)) for v in h.get_nodes()}
    raw = [tuple(e) for e in h.get_edges()]
    edges = {}
    for e in raw:
        edges[tuple(sorted(e))] = (h.get_weight(e), copy.deepcopy(h.get_edge_metadata(e)))
    return dict(nodes=nodes, nnodes=len(h.get_nodes()), raw=raw, edges=edges, weighted=h.is_weighted(),
                hmeta=copy.deepcopy(h.get_hypergraph_metadata()))


def _show(s):
    return dict(nodes=list(s["nodes"]), edges=[list(e) for e in s["edges"]],
                weights=[s["edges"][e][0] for e in s["edges"]], edge_metadata=[s["edges"][e][1] for e in s["edges"]],
                node_metadata=[s["nodes"][v] for v in s["nodes"]], weighted=s["weighted"])


def _same(a, b):
    return (a["nodes"] == b["nodes"] and a["nnodes"] == b["nnodes"] and a["edges"] == b["edges"]
            and a["weighted"] == b["weighted"] and a["hmeta"] == b["hmeta"] and len(a["raw"]) == len(b["raw"]))


def _distinct(e):
    return len(set(e)) == len(e)


def _pool_ok(old_s, new_s, pval):
    """Exists R: vanished <= R <= old_s, |R| <= max(#vanished, ceil(p*m)), nodes(new hyperedges) <= nodes(R),
    #new hyperedges <= |R|."""
    gone = old_s - new_s
    fresh = new_s - old_s
    if not fresh:
        return True
    need = set().union(*[set(e) for e in fresh])
    m = len(old_s)
    k = min(m, max(len(gone), int(math.ceil(pval * m - 1e-9))))
    if len(fresh) > k:
        return False
    base = set().union(*[set(e) for e in gone]) if gone else set()
    rest = [e for e in old_s if e not in gone]
    for extra in itertools.combinations(rest, k - len(gone)):
        have = set(base)
        for e in extra:
            have.update(e)
        if need <= have:
            return True
    return False


def _call(_rec, _fn, _case, _f, *a, **kw):
    """Run the function under contract; exceptions on admissible input are contract failures. -> (ok, value)"""
    try:
        with _limit():
            return True, _f(*a, **kw)
    except _Timeout:
        _rec.fail(_fn, "terminates on admissible input", _case, expected="returns",
                  observed=f"still running after {CALL_LIMIT_S} s", replay=_case)
    except Exception as ex:      # noqa: BLE001 - every exception on an admissible input is reported
        _rec.check(False, _fn, "does not raise on admissible input", _case, expected="returns",
                   observed=f"{type(ex).__name__}: {ex}", replay=_case)
    return False, None


# --------------------------------------------------------------------------------------------------------- the kinds
def _case_rh(rec, p):
    gr = _L["gr"]
    n, m, seed = p["n"], {int(s): int(c) for s, c in p["map"]}, p["seed"]
    uniform = p.get("uniform") and len(m) == 1
    fn = "generation.random.random_uniform_hypergraph" if uniform else "generation.random.random_hypergraph"

    def gen():
        if uniform:
            (s, c), = m.items()
            return gr.random_uniform_hypergraph(n, s, c, seed)
        return gr.random_hypergraph(n, dict(m), seed=seed)

    _seed_globals(p["gseed"])
    ok, h = _call(rec, fn, p, gen)
    if not ok:
        return False
    rec.check(True, fn, "does not raise on admissible input", p)
    s1 = _snap(h)
    rec.check(set(s1["nodes"]) == set(range(n)) and s1["nnodes"] == n, fn, "nodes are exactly 0..n-1", p,
              expected=list(range(n)), observed=list(s1["nodes"]), replay=p)
    bad = [list(e) for e in s1["raw"] if len(e) not in m or not _distinct(e)]
    rec.check(not bad, fn, "only hyperedges of the requested sizes with distinct nodes", p, expected=sorted(m),
              observed=bad, replay=p)
    per = {}
    for e in s1["edges"]:
        per[len(e)] = per.get(len(e), 0) + 1
    over = {s: c for s, c in per.items() if c > m.get(s, 0)}
    rec.check(not over, fn, "at most the requested number of hyperedges per size", p, expected=m, observed=per, replay=p)
    miss = [s for s, c in m.items() if c >= 1 and per.get(s, 0) < 1]
    rec.check(not miss, fn, "at least one hyperedge of a size when one was requested", p, expected=m, observed=per,
              replay=p)
    if seed is not None:
        _seed_globals(p["gseed"] + 1)       # a different global state: only the seed argument may matter
        ok, h2 = _call(rec, fn, p, gen)
        if ok:
            s2 = _snap(h2)
            rec.check(_same(s1, s2), fn, "same seed gives the same hypergraph", p, expected=_show(s1),
                      observed=_show(s2), replay=p)
    return any(c > 0 for c in m.values())


def _case_sf(rec, p):
    fn = "generation.scale_free.scale_free_hypergraph"
    n = p["n"]
    m = {int(s): int(c) for s, c in p["map"]}
    sc = {int(s): float(x) for s, x in p["scale"]}
    kw = dict(p["kw"])
    _seed_globals(p["gseed"])
    if p.get("rejected"):
        # documented ValueError (correlation value with correlated == False): not forbidden by the statement, skipped
        try:
            with _limit():
                h = _L["scale_free_hypergraph"](n, dict(m), dict(sc), **kw)
        except Exception:   # noqa: BLE001
            rec.count("scale_free: documented rejection (skipped)")
            return False
    else:
        ok, h = _call(rec, fn, p, _L["scale_free_hypergraph"], n, dict(m), dict(sc), **kw)
        if not ok:
            return False
        rec.check(True, fn, "does not raise on admissible input", p)
    s = _snap(h)
    rec.check(s["nnodes"] == n and len(s["nodes"]) == n, fn, "returns n nodes", p, expected=n, observed=list(s["nodes"]),
              replay=p)
    per = {}
    for e in s["edges"]:
        if _distinct(e):
            per[len(e)] = per.get(len(e), 0) + 1
    # per key of the request (whatever the insertion orders of the two dictionaries); a size that was not requested
    # has requested number 0
    rec.check(all(per.get(k, 0) == m.get(k, 0) for k in set(m) | set(per)) and len(s["raw"]) == len(s["edges"]), fn,
              "exactly the requested number of distinct hyperedges per size", p, expected=m,
              observed=dict(sorted(per.items())), replay=p)
    return any(c > 0 for c in m.values())


def _case_hoad(rec, p):
    fn = "generation.activity_driven.HOADmodel"
    N = p["N"]
    acts = {int(o): list(v) for o, v in p["acts"]}
    kw = {} if p["time"] == "omit" else {"time": p["time"]}
    horizon = 100 if p["time"] == "omit" else p["time"]
    _seed_globals(p["gseed"])
    ok, th = _call(rec, fn, p, _L["HOADmodel"], N, acts, **kw)
    if not ok:
        return False
    rec.check(True, fn, "does not raise on admissible input", p)
    edges = list(th.get_edges())
    sizes_ok, nodes_ok, times_ok = [], [], []
    for t, e in edges:
        e = tuple(e)
        if (len(e) - 1) not in acts:
            sizes_ok.append([t, list(e)])
        if not (_distinct(e) and all(isinstance(v, numbers.Integral) and 0 <= v < N for v in e)):
            nodes_ok.append([t, list(e)])
        if not (0 <= t < horizon):
            times_ok.append([t, list(e)])
    rec.check(not sizes_ok, fn, "only hyperedges of size order+1", p, expected=sorted(o + 1 for o in acts),
              observed=sizes_ok[:5], replay=p)
    rec.check(not nodes_ok, fn, "hyperedges have distinct nodes below N", p, expected=f"distinct nodes in 0..{N - 1}",
              observed=nodes_ok[:5], replay=p)
    rec.check(not times_ok, fn, "times lie in [0, time)", p, expected=f"0 <= t < {horizon}", observed=times_ok[:5],
              replay=p)
    return len(edges) > 0


def _case_are(rec, p):
    gr = _L["gr"]
    plural = p["plural"]
    fn = "generation.random.add_random_edges" if plural else "generation.random.add_random_edge"
    h = _build(p["base"])
    before = _snap(h)
    size = p["size"]
    kw = {"order": size - 1} if p["by"] == "order" else {"size": size}
    kw.update(inplace=p["inplace"], seed=p["seed"])
    _seed_globals(p["gseed"])
    if plural:
        ok, r = _call(rec, fn, p, gr.add_random_edges, h, p["num"], **kw)
    else:
        ok, r = _call(rec, fn, p, gr.add_random_edge, h, **kw)
    if not ok:
        return False
    rec.check(True, fn, "does not raise on admissible input", p)
    res = h if p["inplace"] else r
    if not p["inplace"] and not rec.check(hasattr(res, "get_edges"), fn,
                                          "returns the extended hypergraph when inplace=False", p,
                                          expected="Hypergraph", observed=type(res).__name__, replay=p):
        return False
    after = _snap(res)
    added = [e for e in after["raw"] if tuple(sorted(e)) not in before["edges"]]
    bad = [list(e) for e in added if len(e) != size or not _distinct(e)]
    rec.check(not bad, fn, "adds only hyperedges of the requested size", p, expected=size, observed=bad, replay=p)
    old_nodes = set(before["nodes"])
    bad = [list(e) for e in added if not set(e) <= old_nodes]
    rec.check(not bad, fn, "added hyperedges lie over existing nodes", p, expected=list(before["nodes"]), observed=bad,
              replay=p)
    intact = (after["nodes"] == before["nodes"] and after["nnodes"] == before["nnodes"]
              and after["weighted"] == before["weighted"] and after["hmeta"] == before["hmeta"]
              and all(e in after["edges"] for e in before["edges"])
              and all(after["edges"][e] == v for e, v in before["edges"].items() if len(e) != size))
    rec.check(intact, fn, "leaves everything else intact", p, expected=_show(before), observed=_show(after), replay=p)
    return (not plural) or p["num"] > 0


def _check_shuffled(rec, fn, p, before, after, sizes):
    pval = p["p"]
    rec.check(set(after["nodes"]) == set(before["nodes"]) and after["nnodes"] == before["nnodes"], fn,
              "keeps the node set", p, expected=list(before["nodes"]), observed=list(after["nodes"]), replay=p)
    lost = [list(e) for e in before["edges"] if len(e) not in sizes and e not in after["edges"]]
    rec.check(not lost, fn, "keeps all hyperedges of other sizes", p, expected=[list(e) for e in before["edges"]],
              observed=dict(missing=lost, after=[list(e) for e in after["edges"]]), replay=p)
    bad = [list(e) for e in after["raw"] if tuple(sorted(e)) not in before["edges"]
           and (len(e) not in sizes or not _distinct(e))]
    rec.check(not bad, fn, "keeps the size of every rewired hyperedge", p, expected=sorted(sizes), observed=bad,
              replay=p)
    pool_bad = []
    for s in sorted(set(sizes) | {len(e) for e in after["edges"]}):
        old_s = {e for e in before["edges"] if len(e) == s}
        new_s = {e for e in after["edges"] if len(e) == s}
        if s in sizes:
            if not _pool_ok(old_s, new_s, pval):
                pool_bad.append(dict(size=s, vanished=[list(e) for e in old_s - new_s],
                                     new=[list(e) for e in new_s - old_s]))
    rec.check(not pool_bad, fn, "replacement nodes come only from the rewired hyperedges", p,
              expected="every new hyperedge lies in the union of at most max(#vanished, ceil(p*m)) old hyperedges of "
                       "its size that include the vanished ones", observed=pool_bad, replay=p)
    if pval == 0:
        rec.check(set(after["nodes"]) == set(before["nodes"]) and set(after["edges"]) == set(before["edges"])
                  and after["nodes"] == before["nodes"] and after["hmeta"] == before["hmeta"]
                  and after["weighted"] == before["weighted"], fn,
                  "changes nothing for p = 0 (nodes, hyperedges, node and hypergraph metadata)", p,
                  expected=_show(before), observed=_show(after), replay=p)
        common_e = [e for e in before["edges"] if e in after["edges"]]
        rec.check(all(before["edges"][e][0] == after["edges"][e][0] for e in common_e), fn,
                  "changes nothing for p = 0 (weights)", p,
                  expected={str(list(e)): before["edges"][e][0] for e in common_e},
                  observed={str(list(e)): after["edges"][e][0] for e in common_e}, replay=p)
        rec.check(all(before["edges"][e][1] == after["edges"][e][1] for e in common_e), fn,
                  "changes nothing for p = 0 (edge metadata)", p,
                  expected={str(list(e)): before["edges"][e][1] for e in common_e},
                  observed={str(list(e)): after["edges"][e][1] for e in common_e}, replay=p)


def _case_sh(rec, p):
    gr = _L["gr"]
    allo = p["kind"] == "sha"
    fn = "generation.random.random_shuffle_all_orders" if allo else "generation.random.random_shuffle"
    h = _build(p["base"])
    before = _snap(h)
    kw = dict(p=p["p"], inplace=p["inplace"], preserve_degree=p["pd"], seed=p["seed"])
    _seed_globals(p["gseed"])
    if allo:
        sizes = {len(e) for e in before["edges"]}
        ok, r = _call(rec, fn, p, gr.random_shuffle_all_orders, h, **kw)
    else:
        sizes = {p["size"]}
        if p["by"] == "order":
            kw["order"] = p["size"] - 1
        else:
            kw["size"] = p["size"]
        ok, r = _call(rec, fn, p, gr.random_shuffle, h, **kw)
    if not ok:
        return False
    rec.check(True, fn, "does not raise on admissible input", p)
    if p["inplace"]:
        res = h
    else:
        res = r
        arg = _snap(h)
        rec.check(_same(arg, before), fn, "leaves its argument untouched with inplace=False", p,
                  expected=_show(before), observed=_show(arg), replay=p)
        if not rec.check(hasattr(res, "get_edges"), fn, "returns the shuffled hypergraph when inplace=False", p,
                         expected="Hypergraph", observed=type(res).__name__, replay=p):
            return False
    after = _snap(res)
    _check_shuffled(rec, fn, p, before, after, sizes)
    m = sum(1 for e in before["edges"] if len(e) in sizes)
    return m > 0 and (p["p"] == 0 or int(p["p"] * m) > 0 or allo)


_KINDS = dict(rh=_case_rh, sf=_case_sf, hoad=_case_hoad, are=_case_are, sh=_case_sh, sha=_case_sh)


def _run_case(rec, p):
    np = _L["np"]
    with warnings.catch_warnings():
        warnings.simplefilter("ignore")
        with np.errstate(all="ignore"):
            return bool(_KINDS[p["kind"]](rec, p))


# ------------------------------------------------------------------------------------------------------ case lists
_HAND = [
    dict(name="mixed", nodes=[0, 1, 2, 3, 4], edges=[[0, 1], [1, 2], [2, 3], [0, 1, 2], [1, 3, 4], [0, 2, 3, 4]]),
    dict(name="mixed-weighted-meta", nodes=[0, 1, 2, 3, 4],
         edges=[[0, 1], [1, 2], [2, 3], [0, 1, 2], [1, 3, 4], [0, 2, 3, 4]], weights=[2.0, 3.0, 1.5, 5.0, 0.5, 7.0],
         nmeta=True, emeta=True),
    dict(name="strings-isolated", nodes=["a", "b", "c", "d", "e", "f"],
         edges=[["a", "b"], ["b", "c"], ["c", "d"], ["a", "c", "e"], ["b", "d", "e"]], nmeta=True, emeta=True),
    dict(name="noncontiguous", nodes=[10, 20, 30, 40, 50, 60, 70],
         edges=[[10, 20], [30, 40], [50, 60], [10, 30, 50], [20, 40, 60], [10, 20, 30, 40]]),
    dict(name="singletons", nodes=[0, 1, 2, 3], edges=[[0], [1], [2], [0, 1], [2, 3], [1, 2, 3]]),
    dict(name="edgeless", nodes=[0, 1, 2, 3], edges=[]),
    dict(name="uniform3-weighted", nodes=[0, 1, 2, 3, 4, 5],
         edges=[[0, 1, 2], [1, 2, 3], [2, 3, 4], [3, 4, 5], [0, 4, 5]], weights=[1.0, 2.0, 3.0, 4.0, 5.0], emeta=True),
    dict(name="upto5", nodes=[0, 1, 2, 3, 4, 5, 6, 7],
         edges=[[0, 1], [2, 3], [4, 5], [6, 7], [0, 2], [1, 3, 5], [2, 4, 6], [0, 3, 6, 7], [1, 2, 4, 5, 7]]),
]


def _random_bases(rng, k):
    out = []
    for i in range(k):
        n = rng.randint(4, 8)
        style = rng.choice(["int", "str", "offset"])
        labels = {"int": list(range(n)), "str": ["v%d" % j for j in range(n)],
                  "offset": [7 + 3 * j for j in range(n)]}[style]
        edges = set()
        for _ in range(rng.randint(3, 9)):
            edges.add(tuple(sorted(rng.sample(labels, rng.randint(1, min(5, n))))))
        edges = [list(e) for e in sorted(edges)]
        rng.shuffle(edges)
        spec = dict(name="random%d" % i, nodes=labels, edges=edges)
        if rng.random() < 0.5:
            spec["weights"] = [rng.choice([0.5, 1.0, 2.0, 3.5]) for _ in edges]
        if rng.random() < 0.5:
            spec["nmeta"] = True
        if rng.random() < 0.5:
            spec["emeta"] = True
        out.append(spec)
    return out


def _small_bases():
    nodes = [0, 1, 2, 3]
    allowed = [list(c) for s in range(1, 5) for c in itertools.combinations(nodes, s)]
    out = []
    for k in range(0, 4):
        for es in itertools.combinations(allowed, k):
            out.append(dict(nodes=nodes, edges=[list(e) for e in es]))
    return out


def _gen_cases(ctx):
    rng = _pyrandom.Random(_derive(ctx.seed, "c14-gen"))
    quick = ctx.quick
    seeds = list(range(20 if quick else 200))
    cases = []

    def add(p, *tag):
        p["gseed"] = _derive(ctx.seed, p["kind"], len(cases), *tag)
        cases.append(p)

    # ---- random_hypergraph / random_uniform_hypergraph
    for n in range(1, 9):
        sizes = list(range(1, min(4, n) + 1))
        single = [[[s, c]] for s in sizes for c in range(6)]
        sampled = []
        for _ in range(40):
            ks = rng.sample(sizes, rng.randint(min(2, len(sizes)), len(sizes)))
            sampled.append([[s, rng.randint(0, 5)] for s in ks])
        for m in single:
            for sd in seeds:
                add(dict(kind="rh", n=n, map=m, seed=sd, uniform=True))
            add(dict(kind="rh", n=n, map=m, seed=None, uniform=True))
            add(dict(kind="rh", n=n, map=m, seed=3, uniform=False))
        for m in sampled:
            for sd in seeds:
                add(dict(kind="rh", n=n, map=m, seed=sd))
            add(dict(kind="rh", n=n, map=m, seed=None))
        if not quick:
            for counts in itertools.product(range(6), repeat=len(sizes)):
                m = [[s, c] for s, c in zip(sizes, counts)]
                for sd in range(20):
                    add(dict(kind="rh", n=n, map=m, seed=sd))
    # ---- scale_free_hypergraph
    modes = [("defaults", {}, False), ("corr_target=0", {"corr_target": 0.0}, False),
             ("corr_target=.5", {"corr_target": 0.5}, False), ("corr_target=1", {"corr_target": 1.0}, False),
             ("correlated=True,corr_target=.5", {"correlated": True, "corr_target": 0.5}, False),
             ("correlated=False", {"correlated": False}, False), ("num_shuffles=3", {"num_shuffles": 3}, False),
             ("correlated=False,corr_target=.5 (documented rejection)", {"correlated": False, "corr_target": 0.5}, True)]
    for n in range(2, 9):
        sizes = list(range(1, min(4, n) + 1))
        for j in range(6 if quick else 12):
            ks = rng.sample(sizes, 1 if j == 0 else rng.randint(1, len(sizes)))
            m = []
            for s in ks:
                cap = min(5, max(1, math.comb(n, s) // 2))
                m.append([s, rng.randint(1 if j < 2 else 0, cap)])
            sc = [[s, rng.choice([0.5, 1.0, 3.0])] for s, _ in m]
            for name, kw, rej in modes:
                for sd in (seeds if not rej else seeds[:2]):
                    p = dict(kind="sf", n=n, map=m, scale=sc, mode=name, kw=kw, draw=sd)
                    if rej:
                        p["rejected"] = True
                    add(p)
    # ---- scale_free_hypergraph, the two size-keyed dictionaries written in different insertion orders: the sizes of
    #      edges_by_size in a random order with pairwise distinct counts, scale_by_size with the same keys reversed /
    #      rotated / shuffled (never the same order), so that any pairing of the two by position instead of by key
    #      changes some size's number of hyperedges.  Every count is <= C(n, s) // 2 (>= 1) for *every* size s of the map.
    for n in list(range(2, 9)) + [12]:
        sizes = list(range(1, min(4, n) + 1)) if n <= 8 else [2, 3, 4, 5]
        for j in range(4 if quick else 10):
            ks = rng.sample(sizes, 2 if j == 0 else rng.randint(2, len(sizes)))
            cap = min(min(5 if n <= 8 else 9, max(1, math.comb(n, s) // 2)) for s in ks)
            ks = ks[:cap + 1]                     # pairwise distinct counts 0..cap must exist (cap >= 1: >= 2 sizes)
            counts = rng.sample(range(cap + 1), len(ks))
            m = [[s, c] for s, c in zip(ks, counts)]
            scale_of = {s: rng.choice([0.5, 1.0, 3.0]) for s in ks}
            orders = {"reversed": ks[::-1], "rotated": ks[1:] + ks[:1]}
            sh = list(ks)
            for _ in range(8):
                rng.shuffle(sh)
                if sh != ks:
                    break
            orders["shuffled"] = list(sh)
            seen = []
            for oname, order in orders.items():
                if order == ks or order in seen:
                    continue
                seen.append(order)
                sc = [[s, scale_of[s]] for s in order]
                for name, kw, rej in modes:
                    if rej:
                        continue
                    for sd in seeds[::4]:
                        add(dict(kind="sf", n=n, map=m, scale=sc, scale_order=oname, mode=name, kw=kw, draw=sd))
    # ---- HOADmodel
    for N in range(1, 9):
        orders_all = [o for o in range(0, 4) if o <= N]
        confs = []
        for j in range(5):
            ks = rng.sample(orders_all, rng.randint(1, min(3, len(orders_all))))
            acts = []
            for o in ks:
                style = rng.choice(["zeros", "ones", "c3", "c5", "rand", "rand"]) if j else "c5"
                vec = {"zeros": [0.0] * N, "ones": [1.0] * N, "c3": [0.3] * N, "c5": [0.5] * N,
                       "rand": [round(rng.random(), 3) for _ in range(N)]}[style]
                acts.append([o, vec])
            confs.append(acts)
        for ci, acts in enumerate(confs):
            for tm in (0, 1, 4, 12):
                for sd in seeds:
                    add(dict(kind="hoad", N=N, acts=acts, time=tm, draw=sd))
            for sd in seeds[:2 if quick else 10]:
                add(dict(kind="hoad", N=N, acts=acts, time="omit", draw=sd))
    # ---- bases for add_random_edge(s) and the shuffles
    big = _HAND + _random_bases(rng, 6 if quick else 30)
    small = _small_bases()
    small_seeds = list(range(2 if quick else 10))
    for group, sds, full in ((big, seeds, True), (small, small_seeds, False)):
        for bi, base in enumerate(group):
            n = len(base["nodes"])
            present = sorted({len(e) for e in base["edges"]})
            absent = [s for s in range(1, 6) if s not in present][:1]
            # add_random_edge / add_random_edges
            for size in range(1, min(4, n) + 1):
                cap = math.comb(n, size)
                nums = [k for k in (range(0, 6) if full else (1, 3)) if k <= cap]
                for inplace in (True, False):
                    for sd in sds:
                        by = "order" if (sd + size) % 3 == 0 else "size"
                        seed_arg = None if sd % 4 == 3 else sd
                        add(dict(kind="are", base=base, plural=False, num=1, by=by, size=size, inplace=inplace,
                                 seed=seed_arg, draw=sd))
                        for k in nums:
                            add(dict(kind="are", base=base, plural=True, num=k, by=by, size=size, inplace=inplace,
                                     seed=seed_arg, draw=sd))
            # random_shuffle
            for size in present + (absent if full else []):
                for pv in (0, 0.3, 0.5, 1):
                    for inplace in (True, False):
                        for pd in ((False, True) if full else (False,)):
                            for sd in sds:
                                by = "order" if (sd + size) % 3 == 0 else "size"
                                seed_arg = None if sd % 4 == 3 else sd
                                add(dict(kind="sh", base=base, by=by, size=size, p=pv, inplace=inplace,
                                         pd=(pd if full else bool(sd % 2)), seed=seed_arg, draw=sd))
            # random_shuffle_all_orders
            for pv in (0, 0.3, 0.5, 1):
                for inplace in (True, False):
                    for pd in ((False, True) if full else (False,)):
                        for sd in sds:
                            seed_arg = None if sd % 4 == 3 else sd
                            add(dict(kind="sha", base=base, p=pv, inplace=inplace,
                                     pd=(pd if full else bool(sd % 2)), seed=seed_arg, draw=sd))
    return cases


# ------------------------------------------------------------------------------------------------------ execution
def _work(span):
    lo, hi = span
    rec = _Rec()
    flags = []
    for i in range(lo, hi):
        flags.append(_run_case(rec, _CASES[i]))
    return flags, rec.clauses, rec.fails, rec.counts, rec.perkey


def _desc(p):
    d = {k: v for k, v in p.items() if k != "gseed"}
    return d


def run(ctx):
    _load()
    ctx.rule("parameter grids (see module docstring) x seeds 0..19 (quick) / 0..199 (thorough); one case = one call "
             "configuration incl. seed; non-trivial = at least one hyperedge requested/emitted, resp. at least one "
             "hyperedge of the rewired size in the base (and p = 0 or int(p*m) > 0)")
    ctx.assume("random / numpy.random global generators are seeded from sha1(ctx.seed, case) before every call")
    ctx.assume("which hyperedges a shuffle selected is not observable: the pool clause accepts any selection of at most "
               "max(#vanished, ceil(p*m)) hyperedges of the rewired size that includes the vanished ones")
    ctx.assume("scale_free_hypergraph: requested counts are capped at C(n,size)//2 (>= 1) so that the requested number "
               "of distinct hyperedges exists; a call running longer than %d s is reported as non-terminating" % CALL_LIMIT_S)
    ctx.assume("add_random_edge(s): weight/metadata of hyperedges of the requested size are not compared "
               "(re-drawing an existing hyperedge updates it, as documented for add_edge)")
    global _CASES
    _CASES = _gen_cases(ctx)
    n = len(_CASES)
    step = 400
    spans = [(i, min(n, i + step)) for i in range(0, n, step)]
    procs = max(1, min(16, os.cpu_count() or 1))
    if procs > 1 and n > step:
        with multiprocessing.get_context("fork").Pool(procs) as pool:
            results = pool.map(_work, spans, chunksize=1)
    else:
        results = [_work(s) for s in spans]
    forwarded = {}
    for (lo, hi), (flags, clauses, fails, counts, perkey) in zip(spans, results):
        for i, nt in zip(range(lo, hi), flags):
            ctx.case(_desc(_CASES[i]), nontrivial=nt)
            ctx.count("cases:" + _CASES[i]["kind"])
        for k, v in clauses.items():
            ctx.contract_evals[k] = ctx.contract_evals.get(k, 0) + v
        for k, v in counts.items():
            ctx.count(k, v)
        for f in fails:
            key = f["key"] or f"{f['function']}:{f['clause']}"
            forwarded[key] = forwarded.get(key, 0) + 1
            if forwarded[key] <= 2:
                ctx.fail(f["function"], f["clause"], f["input"], f["expected"], f["observed"], f["key"], f["replay"])
        for k, v in perkey.items():
            ctx.count("failures:" + k, v)
    ctx.exhaustive_parts.append("bases of add_random_edge(s) / random_shuffle / random_shuffle_all_orders: every "
                                "hypergraph on nodes 0..3 with <= 3 hyperedges of sizes 1..4 (576), every size present, "
                                "p in {0,.3,.5,1}, inplace True/False (random outcomes sampled by seed)")
    ctx.exhaustive_parts.append("random_uniform_hypergraph: every (n, size, count) with n = 1..8, size <= min(4, n), "
                                "count = 0..5 (random outcomes sampled by seed)")
    if not ctx.quick:
        ctx.exhaustive_parts.append("random_hypergraph: every size->count map over sizes 1..min(4,n) with counts 0..5, "
                                    "n = 1..8, seeds 0..19")
    _CASES = []


def replay(data):
    _load()
    rec = _Rec()
    _run_case(rec, data)
    if rec.fails:
        want = data.get("_clause") if isinstance(data, dict) else None
        f = ([x for x in rec.fails if x["clause"] == want] or rec.fails)[0]
        return False, (f"{f['function']}: clause '{f['clause']}' fails; expected {str(f['expected'])[:300]} "
                       f"observed {str(f['observed'])[:300]}")
    return True, "all contract clauses hold on this input (%d clause evaluations)" % sum(rec.clauses.values())
