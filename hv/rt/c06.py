"""C06 (bounded): save then load returns the same hypergraph, for every type and format; hMETIS and HIF readers.

Functions under contract (real code of /repo):
  readwrite.save_hypergraph, readwrite.load_hypergraph (.json text, .hgx binary, .hgr hMETIS), readwrite.hif.read_hif.

Scope
  exhaustive  For each of Hypergraph / DirectedHypergraph / TemporalHypergraph / MultiplexHypergraph x {weighted,
              unweighted} x {integer, string node labels}: every object on the node universe {0..n-1} (all n nodes are
              added, so nodes not covered by a record are isolated) holding at most k distinct records, where a record
              is a non-empty node set (Hypergraph), an ordered pair of disjoint non-empty node sets (Directed), a
              (time in {0,2}, node set) pair (Temporal) or a (node set, layer in {"a","b"}) pair (Multiplex) - the same
              node set at two times / in two layers and both directions of a pair are therefore included.
                quick    : H n<=3 k<=4; D n<=3 k<=3; T, M n<=3 k<=3
                thorough : H n<=4 k<=4; D n<=3 k<=4 and n=4 k<=2; T, M n<=3 k<=4 and n=4 k<=2
              Labels are 0..n-1 renamed through a fixed map (contiguous / scattered integers, plain / digit strings);
              weights (int and float), nested JSON metadata at hypergraph / node / hyperedge level and the order in
              which a hyperedge's nodes are listed rotate deterministically through fixed pools.  Each object is saved
              and loaded in both formats (.json, .hgx).
              hMETIS: every file "E V [fmt]" with V <= 4 (thorough 5) vertices and at most 3 (thorough: V<=4 also 4)
              distinct hyperedges, fmt in {absent, 1, 10, 11}, rendered in rotating layout styles (comment lines
              before / between / after, blank lines, indentation, trailing blanks, repeated blanks inside hyperedge
              lines - which the reader explicitly tolerates; one further style, repeated blanks in the header line, is
              sampled only and has its own key).
              HIF: every undirected document over <= 4 node names whose <= 3 edge names have distinct non-empty
              incidence sets, with rotating choices of which node / edge records are present (all, some, none, an extra
              isolated node record, an edge record without incidences), attrs / weight fields, name types (str / int),
              incidence order, "type" present / absent, plus "directed" documents.
              Histories: for every directly built object of the (smaller) universes below, every single edit of
              each of these kinds is applied before saving - remove_node(v) for each node v; remove_node(v,
              keep_edges=True) for each v where its meaning is unambiguous; remove_node(v) followed by re-adding v
              with other metadata and one of its former hyperedges; remove_edge(r) for each record r; remove_edge(r)
              followed by re-inserting r with another weight / metadata; a new node carrying metadata added and
              removed again (isolated; and, for each node v, joined to v by a new hyperedge first, removed without
              and with keep_edges); clear() + set_hypergraph_metadata + refill with part of the content (types that
              have clear: not Multiplex); all nodes removed one by one (keep_edges alternating) and the object
              refilled with part of the content under other metadata / weights.  Both formats.
                quick    : H n<=3 k<=2; D n<=3 k<=2; T, M n<=3 k<=2
                thorough : H n<=3 k<=3 and n=4 k<=2; D, T, M n<=3 k<=3 and n=4 k<=1
              Second generation: for every directly built object of the universes below the file is loaded and
              the LOADED object is edited through the public mutators, one case per single edit of each of these
              kinds - set_weight of each record (weighted); one metadata field of each record set and another one
              deleted (set_attr_to_edge_metadata / remove_attr_from_edge_metadata); the metadata of each record
              replaced (set_edge_metadata; not Multiplex); each record removed and re-inserted with another weight /
              metadata; each record removed and a hyperedge the object never held inserted; each record removed
              BEFORE the first save, and after loading a new hyperedge inserted, the removed one re-inserted and its
              weight set; for each node: one metadata field set and another deleted, its metadata replaced
              (set_node_metadata; not Multiplex), remove_node without / with keep_edges followed by a new hyperedge,
              a new node with metadata joined to the object by a new hyperedge; one / two new hyperedges (over present
              nodes, at present or new times / layers); a new isolated node; set_attr_to_hypergraph_metadata; all
              kinds of edit in a row.  The edited loaded object is compared with the abstract content, saved again
              in each format and loaded again: all four (first format, second format) pairs.
                quick    : H, T, M n<=2 k<=2 and n=3 k<=1; D n=2 k<=2 and n=3 k<=1
                thorough : H n<=3 k<=3; D n<=3 k<=2; T, M n<=2 k<=3 and n=3 k<=2
  sampled     Seeded random objects beyond the small scope (up to 7 nodes, hyperedges of size up to 5, up to 6 records,
              random nested metadata, isolated nodes, repeated node sets across times / layers, weight 0 excluded),
              objects whose hypergraph metadata was replaced through set_hypergraph_metadata (so it lacks the
              "weighted" entry the constructor puts there), objects that went through an insert-then-remove detour (a
              node, a hyperedge) before being saved, random histories (a random object of <= 6 nodes and <= 5
              records followed by 2-11 random steps: add_node of an absent label - possibly one removed earlier -,
              add_edge of an absent record - possibly over a member the object does not hold -, remove_edge,
              remove_edge + re-insertion, remove_node without / with keep_edges, clear), random second-generation
              histories (a random object of <= 6 nodes and <= 5 records, in 60% of the cases 1-5 random steps -
              removals included - before the first save, then 1-8 random steps on the loaded object: the steps above
              plus set_weight, set / delete of a metadata field or replacement of the metadata of a node or
              hyperedge, set_attr_to_hypergraph_metadata; quick: two of the four format pairs per history,
              alternating; thorough: all four), random .hgr files (<= 8 vertices, <= 6 hyperedges) and random HIF
              documents (<= 6 nodes, <= 3 edges).
Oracle
  Round trip: the deep snapshot of the saved object taken through the public API only (type, is_weighted, get_nodes
  (metadata=True), get_edges, get_weight, get_edge_metadata, get_hypergraph_metadata) before saving is compared with
  the snapshot of the loaded object, component by component (hyperedge metadata with the top-level keys weight / time
  / layer removed on both sides), and with the snapshot of the saved object after saving (nothing removed).  Before
  that the snapshot is compared with the generating description; if the container itself does not hold the intended
  content the case is skipped and counted (C01-C04's business).  Node metadata are (re)installed with
  set_node_metadata after the hyperedges where the container lost them (DirectedHypergraph.add_node resets them).
  Histories: the abstract content (node -> metadata, record -> weight / metadata, hypergraph metadata) is computed
  from the list of steps by model_step (plain dicts; only steps whose meaning is unambiguous are generated: no add of
  something present, keep_edges never where a shrunk hyperedge would coincide with a present one nor on a directed
  hyperedge).  The saved object must report exactly that content - node set = get_nodes(), node metadata =
  get_node_metadata(n) for these nodes (Multiplex: get_nodes(metadata=True)[n]), hyperedges / weights / metadata as
  above - otherwise the case is skipped and counted (the mutators are C01-C04's business).  The loaded object is then
  compared with the abstract content through the same getters; get_nodes(metadata=True) of the loaded object is
  compared as well whenever that of the saved object agreed with the abstract content.  So residue that removals
  leave inside the saved object (stale metadata or adjacency entries) must not come back as nodes, hyperedges or
  metadata of the loaded one, and nothing that the history left in place may be lost.
  Second generation: "returns an object with the same nodes, hyperedges, weights and metadata" is read as: the
  returned object IS that hypergraph for the public API, also under further public edits.  The abstract content
  after the edits is computed by model_step from (steps before saving + edits).  A never-saved twin (the same steps
  and edits on an object that does not go through a file) must report exactly that content, otherwise the case is
  skipped and counted (the mutators are C01-C04's business); likewise if the first save + load raises or the loaded
  object differs from the saved content already (the round-trip / history cases report that).  Then (a) the edits
  must not raise on the loaded object and the edited loaded object must report the abstract content through the same
  getters, clause by clause (keys "... [gen2 edit] [type/format]") - this exposes state that the loader installs
  wrongly but that only shows after an edit, e.g. an id counter restored wrongly so that a new hyperedge takes over
  weight / metadata of an old one; (b) the edited loaded object is an object like any other: save + load of it must
  again return the abstract content and must not modify it (keys "... [gen2 save] [type/format>format]") - this
  exposes what the loader leaves behind and the next save writes back, e.g. the reserved key weight inside the
  loaded hyperedge metadata, stale after set_weight.
  hMETIS: a 12-line reference reader (whitespace tokens, '%' comments).  HIF: "one hyperedge per incidence set" up to
  a bijection between the file's node names and the nodes of the result (brute force), under which every node record
  must be what get_node_metadata returns, every edge record what get_edge_metadata returns and every incidence record
  what get_incidence_metadata returns.
Limits
  * Weight equality is numeric (2 == 2.0); metadata equality is Python ==.
  * Reserved keys weight / time / layer are never generated inside hyperedge metadata; "weighted" / "type" never
    inside hypergraph metadata (the constructors overwrite them).
  * Second generation: the in-place setters are never given the reserved keys weight / time / layer as field names;
    incidence metadata and add_empty_edge are not exercised; after a failed clause of stage (a) the second save is
    not attempted.
  * hMETIS: nothing is demanded about the node set (isolated vertices) nor about weightedness of files without
    weights; duplicate hyperedges and repeated vertices in a line are not generated.
  * HIF: two edge names with the same incidence set are not generated (a Hypergraph cannot hold parallel hyperedges);
    for an edge record without incidences and for "directed" documents only "does not raise" is demanded; the
    top-level "metadata" and weights are not checked.
  * hMETIS files separated by tabs are not generated (the reader rejects them; whether they are "syntactically valid"
    is not settled by the statement).
  * pickle / json themselves are trusted.
Execution
  The work is cut into fixed tasks (container type x weightedness x label kind x part; file families) run in forked
  worker processes, each with its own temporary directory and its own string-seeded RNG; the parent merges the
  results in task order, so the explored cases and the evidence do not depend on the number of processes.
"""
import contextlib
import copy
import io
import itertools
import json
import os
import random
import tempfile
import warnings
import zlib

PROPERTY = "C06"

KINDS = {"H": "Hypergraph", "D": "DirectedHypergraph", "T": "TemporalHypergraph", "M": "MultiplexHypergraph"}
RESERVED = ("weight", "time", "layer")
RAISES = "does not raise on admissible input"
SAVE = "readwrite.save_hypergraph"
LOAD = "readwrite.load_hypergraph"
HIF = "readwrite.hif.read_hif"

NODE_MD = [{}, {"name": "alice"}, {"attrs": {"age": 31, "tags": ["x", "y", {"deep": None}]}, "score": 0.25},
           {"ok": True, "note": "é ü"}]
EDGE_MD = [{}, {"kind": "meeting"}, {"attrs": {"room": {"floor": 2, "ids": [1, [2, 3]]}}, "p": 0.001},
           {"flag": False, "label": ""}]
HG_MD = [{}, {"name": "toy"}, {"source": {"url": "http://x", "tags": ["a", "b"], "n": 3}, "version": 1.5}]
WEIGHTS = [2, 0.5, 1, 3.25, 10, 7.0]
LABELS = {"int": [[0, 1, 2, 3, 4], [7, 3, 42, 10, 5]], "str": [["a", "b", "c", "d", "e"], ["n1", "x", "beta", "10", "A"]]}
TIMES = (0, 2)
LAYERS = ("a", "b")


# ------------------------------------------------------------------------------------------------ plumbing
class Rep:
    """Clause sink: forwards to ctx (run) or only collects failures (replay)."""

    def __init__(self, ctx=None):
        self.ctx, self.failed, self._seen = ctx, [], set()

    def check(self, cond, function, clause, input, expected=None, observed=None, key=None, replay=None):
        cond = bool(cond)
        key = key or f"{function}:{clause}"
        if self.ctx is not None:
            if cond or key in self._seen:
                self.ctx.clause(f"{function}:{clause}")
            else:  # ctx keeps at most 50 violations in total: hand over the first witness of each kind only
                self._seen.add(key)
                self.ctx.check(False, function, clause, input, expected() if callable(expected) else expected,
                               observed() if callable(observed) else observed, key,
                               dict(replay, key=key) if isinstance(replay, dict) else replay)
            if not cond:
                self.ctx.count("failed evaluations of " + key)
        if not cond:
            self.failed.append(key)
        return cond


_ATOMS = (str, int, float, bool, type(None))


def _dc(x):
    """Deep copy; JSON-shaped data (the bulk) is copied by hand, anything else goes to copy.deepcopy."""
    t = type(x)
    if t is dict:
        return {k: _dc(v) for k, v in x.items()}
    if t is list:
        return [_dc(v) for v in x]
    if t in _ATOMS:
        return x
    return copy.deepcopy(x)


@contextlib.contextmanager
def quiet():
    with warnings.catch_warnings():
        warnings.simplefilter("ignore")
        with contextlib.redirect_stdout(io.StringIO()):
            yield


def _fresh(tmpdir, name):
    """Path inside the run's temporary directory; an older file of that name is removed first (truncating in place is
    slow on this file system)."""
    path = os.path.join(tmpdir, name)
    if os.path.exists(path):
        os.remove(path)
    return path


def _cls(kind):
    import hypergraphx
    return getattr(hypergraphx, KINDS[kind])


# ------------------------------------------------------------------------------------------------ descriptions
def rec_nodes(kind, r):
    return list(r["e"][0]) + list(r["e"][1]) if kind == "D" else list(r["e"])


def rec_key(kind, r):
    if kind == "H":
        return tuple(sorted(r["e"]))
    if kind == "D":
        return (tuple(sorted(r["e"][0])), tuple(sorted(r["e"][1])))
    if kind == "T":
        return (r["t"], tuple(sorted(r["e"])))
    return (tuple(sorted(r["e"])), r["l"])


def spec_desc(spec, **extra):
    md = json.dumps([spec["hmeta"], [m for _, m in spec["nodes"]], [r.get("md") for r in spec["records"]]], sort_keys=True)
    d = {"k": spec["kind"], "w": spec["weighted"], "n": [n for n, _ in spec["nodes"]],
         "r": [[r["e"], r.get("t", r.get("l")), r.get("w")] for r in spec["records"]], "md": zlib.crc32(md.encode())}
    if spec.get("hmeta_replaced"):
        d["hr"] = 1
    if spec.get("detour"):
        d["dt"] = 1
    d.update(extra)
    return d


def candidate_records(kind, n):
    """All records over the universe {0..n-1} (as tuples of universe indices)."""
    sets = [c for k in range(1, n + 1) for c in itertools.combinations(range(n), k)]
    if kind == "H":
        return [dict(e=s) for s in sets]
    if kind == "D":
        return [dict(e=(s, t)) for s in sets for t in sets if not set(s) & set(t)]
    if kind == "T":
        return [dict(e=s, t=t) for t in TIMES for s in sets]
    return [dict(e=s, l=l) for l in LAYERS for s in sets]


def _rot(seq, k):
    seq = list(seq)
    if not seq:
        return seq
    k %= len(seq)
    seq = seq[k:] + seq[:k]
    return seq[::-1] if (k % 2) else seq


def make_spec(kind, weighted, labelkind, n, recs, i):
    """Concrete description from universe-level records; metadata / weights / listing order rotate with i."""
    lab = LABELS[labelkind][i % 2]
    nodes = [[lab[u], _dc(NODE_MD[(i + 3 * u) % len(NODE_MD)])] for u in range(n)]
    nodes = _rot(nodes, i // 2)
    records = []
    for j, r in enumerate(recs):
        if kind == "D":
            e = [[lab[u] for u in _rot(r["e"][0], i + j)], [lab[u] for u in _rot(r["e"][1], i + j + 1)]]
        else:
            e = [lab[u] for u in _rot(r["e"], i + j)]
        rec = {"e": e, "md": _dc(EDGE_MD[(i + j) % len(EDGE_MD)]),
               "w": WEIGHTS[(i + 2 * j) % len(WEIGHTS)] if weighted else None}
        if "t" in r:
            rec["t"] = r["t"]
        if "l" in r:
            rec["l"] = r["l"]
        records.append(rec)
    records = _rot(records, i // 3)
    return {"kind": kind, "weighted": weighted, "hmeta": _dc(HG_MD[i % len(HG_MD)]), "nodes": nodes,
            "records": records}


def small_specs(kind, weighted, labelkind, plan):
    """plan: list of (n, kmax). Enumerates every record set of size <= kmax over each universe."""
    i = 0
    for n, kmax in plan:
        cands = candidate_records(kind, n)
        for k in range(0, kmax + 1):
            if n == 0 and k > 0:
                break
            for recs in itertools.combinations(cands, k):
                yield make_spec(kind, weighted, labelkind, n, recs, i)
                i += 1


def rand_json(rng, depth):
    t = rng.randrange(8 if depth > 0 else 6)
    if t == 0:
        return None
    if t == 1:
        return rng.random() < 0.5
    if t == 2:
        return rng.randrange(-50, 1000)
    if t == 3:
        return rng.choice([0.5, -1.25, 1e-07, 3.141592653589793, 1e+20, 0.1]) * rng.choice([1, 3, 7])
    if t == 4:
        return rng.choice(["", "a", "a b", "é中", "x\"y", "10", "line\nbreak"])
    if t == 5:
        return rng.choice([0, 1, 2 ** 40, -7])
    if t == 6:
        return [rand_json(rng, depth - 1) for _ in range(rng.randrange(0, 4))]
    return {k: rand_json(rng, depth - 1) for k in rng.sample(["a", "b", "name", "ü", "k 1"], rng.randrange(0, 4))}


def rand_md(rng, p_empty=0.3):
    if rng.random() < p_empty:
        return {}
    keys = rng.sample(["name", "color", "attrs", "x", "tags", "note", "ü", "w8"], rng.randrange(1, 4))
    return {k: rand_json(rng, 2) for k in keys}


def random_spec(rng, kind, weighted, labelkind, max_nodes=7, max_recs=6, max_size=5):
    n = rng.randrange(1, max_nodes + 1)
    if labelkind == "int":
        labels = rng.sample(range(0, 60), n) if rng.random() < 0.7 else list(range(n))
    else:
        labels = rng.sample(["a", "b", "c", "n1", "n10", "n2", "10", "2", "Z", "é", "x y", "node"], n)
    k = rng.randrange(0, max_recs + 1)
    keys, records = set(), []
    for _ in range(k * 3):
        if len(records) >= k:
            break
        if kind == "D":
            if n < 2:
                break
            m = rng.randrange(2, min(n, max_size) + 1)
            ns = rng.sample(labels, m)
            cut = rng.randrange(1, m)
            e = [ns[:cut], ns[cut:]]
        else:
            ns = rng.sample(labels, rng.randrange(1, min(n, max_size) + 1))
            e = ns
        rec = {"e": e, "md": rand_md(rng),
               "w": (rng.choice([1, 2, 5, 12, 0.5, 2.75, 1.0, 1e-3, 100]) if weighted else None)}
        if kind == "T":
            rec["t"] = rng.choice([0, 1, 2, 5, 17])
        if kind == "M":
            rec["l"] = rng.choice(["a", "b", "layer 3"])
        if records and rng.random() < 0.35:  # repeat an earlier node set at another time / layer / direction
            prev = rng.choice(records)
            if kind in ("T", "M"):
                rec["e"] = list(prev["e"])[::-1]
            elif kind == "D":
                rec["e"] = [list(prev["e"][1]), list(prev["e"][0])]
        key = rec_key(kind, rec)
        if key in keys:
            continue
        keys.add(key)
        records.append(rec)
    nodes = [[x, rand_md(rng)] for x in labels]
    rng.shuffle(nodes)
    return {"kind": kind, "weighted": weighted, "hmeta": rand_md(rng), "nodes": nodes, "records": records}


# ------------------------------------------------------------------------------------------------ real objects
def add_edge(h, kind, r):
    md = _dc(r.get("md"))
    w = r.get("w")
    if kind == "H":
        h.add_edge(tuple(r["e"]), weight=w, metadata=md)
    elif kind == "D":
        h.add_edge((tuple(r["e"][0]), tuple(r["e"][1])), weight=w, metadata=md)
    elif kind == "T":
        h.add_edge(tuple(r["e"]), r["t"], weight=w, metadata=md)
    else:
        h.add_edge(tuple(r["e"]), r["l"], weight=w, metadata=md)


def remove_edge(h, kind, r):
    if kind == "H":
        h.remove_edge(tuple(r["e"]))
    elif kind == "D":
        h.remove_edge((tuple(r["e"][0]), tuple(r["e"][1])))
    elif kind == "T":
        h.remove_edge(tuple(r["e"]), r["t"])
    else:
        h.remove_edge((tuple(r["e"]), r["l"]))


def fix_node_metadata(h, nodes):
    """(Re)install node metadata through set_node_metadata where the container does not report the intended one."""
    setter = getattr(h, "set_node_metadata", None)
    if setter is None:
        return
    cur = h.get_nodes(metadata=True)
    for n, md in nodes:
        if n in cur and cur[n] != md:
            setter(n, _dc(md))


def new_container(spec):
    return _cls(spec["kind"])(weighted=spec["weighted"], hypergraph_metadata=_dc(spec["hmeta"]))


def build(spec):
    """Canonical construction history: constructor, nodes, hyperedges, node metadata repair."""
    kind = spec["kind"]
    h = new_container(spec)
    for n, md in spec["nodes"]:
        h.add_node(n, metadata=_dc(md))
    for r in spec["records"]:
        add_edge(h, kind, r)
    if spec.get("detour"):
        detour(h, spec, len(spec["records"]))
    fix_node_metadata(h, spec["nodes"])
    if spec.get("hmeta_replaced"):
        h.set_hypergraph_metadata(_dc(spec["hmeta"]))
    return h


def extra_record(spec, salt=0):
    """A record over the nodes of the description that the description does not contain (None if there is none)."""
    kind = spec["kind"]
    labels = [n for n, _ in spec["nodes"]]
    keys = {rec_key(kind, r) for r in spec["records"]}
    w = [4, 1.5, 9][salt % 3] if spec["weighted"] else None
    md = _dc(EDGE_MD[(salt + 1) % len(EDGE_MD)])
    if not labels:
        return None
    if kind == "T":
        return {"e": _rot(labels, salt)[:max(1, len(labels) - salt % 2)], "t": 31, "w": w, "md": md}
    if kind == "M":
        return {"e": _rot(labels, salt)[:max(1, len(labels) - salt % 2)], "l": "zz", "w": w, "md": md}
    if kind == "H":
        cands = [list(c) for k in range(len(labels), 0, -1) for c in itertools.combinations(labels, k)][:40]
        cands = [c for c in cands if tuple(sorted(c)) not in keys]
        return {"e": _rot(cands[salt % len(cands)], salt), "w": w, "md": md} if cands else None
    cands = [[[a], [b]] for a in labels for b in labels if a != b and ((a,), (b,)) not in keys]
    return {"e": cands[salt % len(cands)], "w": w, "md": md} if cands else None


def detour(h, spec, salt=0):
    """Insert-then-remove detours on a built object (a new isolated node, a new hyperedge over existing nodes).
    Each detour is first tried on a deep copy; one whose mutators raise there is left out (C02-C04's business).
    Whether the content is still the intended one afterwards is checked by the caller."""
    kind = spec["kind"]
    labels = [n for n, _ in spec["nodes"]]
    z = "zz" if (labels and isinstance(labels[0], str)) else 999

    def node_detour(x):
        x.add_node(z, metadata={"tmp": salt})
        x.remove_node(z)

    def edge_detour(x):
        add_edge(x, kind, r)
        remove_edge(x, kind, r)

    done = []
    r = extra_record(spec, salt)
    for name, step in (("node", node_detour), ("hyperedge", edge_detour)):
        if name == "hyperedge" and r is None:
            continue
        try:
            step(_dc(h))
        except Exception:
            continue
        step(h)
        done.append(name)
    return done


def snapshot(h):
    """Deep snapshot through the public query API only."""
    tname = type(h).__name__
    nodes = {n: _dc(md) for n, md in h.get_nodes(metadata=True).items()}
    recs = {}
    for e in list(h.get_edges()):
        if tname == "Hypergraph":
            key, w, md = tuple(sorted(e)), h.get_weight(e), h.get_edge_metadata(e)
        elif tname == "DirectedHypergraph":
            key, w, md = (tuple(sorted(e[0])), tuple(sorted(e[1]))), h.get_weight(e), h.get_edge_metadata(e)
        elif tname == "TemporalHypergraph":
            t, ns = e
            key, w, md = (t, tuple(sorted(ns))), h.get_weight(ns, t), h.get_edge_metadata(ns, t)
        elif tname == "MultiplexHypergraph":
            ns, l = e
            key, w, md = (tuple(sorted(ns)), l), h.get_weight(ns, l), h.get_edge_metadata(ns, l)
        else:
            raise TypeError(f"unexpected container {tname}")
        recs[key] = (w, _dc(md))
    return {"type": tname, "weighted": h.is_weighted(), "node_list": sorted(h.get_nodes(), key=repr), "nodes": nodes,
            "records": recs, "hmeta": _dc(h.get_hypergraph_metadata())}


def matches_description(snap, spec):
    """Does the container report exactly the intended content?"""
    kind = spec["kind"]
    if snap["type"] != KINDS[kind] or snap["weighted"] != spec["weighted"]:
        return False
    want_nodes = {n: md for n, md in spec["nodes"]}
    if snap["nodes"] != want_nodes or set(snap["node_list"]) != set(want_nodes):
        return False
    want = {rec_key(kind, r): r for r in spec["records"]}
    if set(snap["records"]) != set(want):
        return False
    for k, r in want.items():
        w, md = snap["records"][k]
        if md != r["md"] or (spec["weighted"] and not (w == r["w"] and type(w) is type(r["w"]))):
            return False
    hm = snap["hmeta"]
    if not isinstance(hm, dict):
        return False
    if spec.get("hmeta_replaced"):
        return hm == spec["hmeta"]
    return all(k in hm and hm[k] == v for k, v in spec["hmeta"].items())


def strip_reserved(md):
    if isinstance(md, dict):
        return {k: v for k, v in md.items() if k not in RESERVED}
    return md


def _show(snap):
    return {"type": snap["type"], "weighted": snap["weighted"], "nodes": snap["nodes"],
            "records": {repr(k): list(v) for k, v in snap["records"].items()}, "hmeta": snap["hmeta"]}


# ------------------------------------------------------------------------------------------------ round trip contract
def roundtrip_case(rep, spec, fmt, tmpdir):
    """One save -> load execution with all clauses. Returns a status word."""
    from hypergraphx.readwrite import save_hypergraph, load_hypergraph
    tname = KINDS[spec["kind"]]
    tag = f" [{tname}/{fmt}]"
    rp = {"part": "roundtrip", "spec": spec, "fmt": fmt}
    try:
        with quiet():
            h = build(spec)
            before = snapshot(h)
    except Exception:
        return "construction raised"
    if not matches_description(before, spec):
        return "construction mismatch"
    path = _fresh(tmpdir, "g." + fmt)
    try:
        with quiet():
            save_hypergraph(h, path, binary=(fmt == "hgx"))
    except Exception as ex:
        rep.check(False, SAVE, RAISES, spec, observed=repr(ex), key=f"{SAVE}:{RAISES}{tag}", replay=rp)
        return "save raised"
    rep.check(True, SAVE, RAISES, spec)
    try:
        after = snapshot(h)
    except Exception as ex:
        after = {"getter raised": repr(ex)}
    cl = "saving does not modify the object being saved"
    rep.check(after == before, SAVE, cl, spec, expected=lambda: _show(before),
              observed=lambda: _show(after) if "type" in after else after, key=f"{SAVE}:{cl}{tag}", replay=rp)
    try:
        with quiet():
            g = load_hypergraph(path)
    except Exception as ex:
        rep.check(False, LOAD, RAISES, spec, observed=repr(ex), key=f"{LOAD}:{RAISES}{tag}", replay=rp)
        return "load raised"
    rep.check(True, LOAD, RAISES, spec)
    cl = "returns an object of the same type"
    if not rep.check(type(g) is type(h), LOAD, cl, spec, expected=tname, observed=type(g).__name__,
                     key=f"{LOAD}:{cl}{tag}", replay=rp):
        return "done"
    try:
        loaded = snapshot(g)
    except Exception as ex:
        cl = "same hyperedges with their direction, times or layers"
        rep.check(False, LOAD, cl, spec, observed="public getter of the loaded object raised " + repr(ex),
                  key=f"{LOAD}:{cl} (getters raise){tag}", replay=rp)
        return "done"

    def chk(cond, cl, expected, observed, sub=""):
        rep.check(cond, LOAD, cl, spec, expected=expected, observed=observed, key=f"{LOAD}:{cl}{sub}{tag}", replay=rp)

    chk(set(loaded["nodes"]) == set(before["nodes"]) and set(loaded["node_list"]) == set(before["node_list"]),
        "same nodes (including isolated ones)", lambda: before["node_list"], lambda: loaded["node_list"])
    chk(set(loaded["records"]) == set(before["records"]), "same hyperedges with their direction, times or layers",
        lambda: sorted(map(repr, before["records"])), lambda: sorted(map(repr, loaded["records"])))
    sub = " (hypergraph metadata without 'weighted' entry)" if spec.get("hmeta_replaced") else ""
    chk(loaded["weighted"] == before["weighted"], "same weightedness", before["weighted"], loaded["weighted"], sub)
    common = [k for k in before["records"] if k in loaded["records"]]
    if loaded["weighted"] == before["weighted"]:  # weights of an object whose weightedness was lost are not comparable
        bad = [k for k in common if not loaded["records"][k][0] == before["records"][k][0]]
        chk(not bad, "same weights", lambda: {repr(k): before["records"][k][0] for k in bad},
            lambda: {repr(k): loaded["records"][k][0] for k in bad})
    chk(loaded["hmeta"] == before["hmeta"], "same hypergraph metadata", before["hmeta"], loaded["hmeta"], sub)
    badn = [n for n in before["nodes"] if n in loaded["nodes"] and loaded["nodes"][n] != before["nodes"][n]]
    chk(not badn, "same node metadata", lambda: {repr(n): before["nodes"][n] for n in badn},
        lambda: {repr(n): loaded["nodes"][n] for n in badn})
    bade = [k for k in common if strip_reserved(loaded["records"][k][1]) != strip_reserved(before["records"][k][1])]
    chk(not bade, "same hyperedge metadata modulo reserved keys", lambda: {repr(k): before["records"][k][1] for k in bade},
        lambda: {repr(k): loaded["records"][k][1] for k in bade})
    return "done"


# ------------------------------------------------------------------------------------------------ histories
# An object that is saved need not have been built directly: it may have been reached through removals and detours.
# A history is a list of json-able steps; its abstract content is computed by hist_model (plain dicts, written from
# the meaning of the steps), the real object by apply_ops (public mutators only).
REMOVING = ("remove_node", "remove_edge", "clear")


def rec_ident(r):
    """The identifying part of a record (what remove_edge needs)."""
    return {k: _dc(r[k]) for k in ("e", "t", "l") if k in r}


def model_step(kind, st, op):
    """Meaning of one step on the abstract content st = {nodes: {label: md}, recs: {key: record}, hmeta, exact}.
    The generators only emit steps whose meaning is unambiguous: add_node of an absent node, add_edge of an absent
    record (member nodes that are absent appear with empty metadata), remove_edge of a present record, remove_node
    (without keep_edges: its hyperedges disappear; with keep_edges: they lose the node, an emptied one disappears,
    never emitted when a shrunk hyperedge would coincide with a present one nor for a directed hyperedge),
    clear followed by set_hypergraph_metadata; and the in-place updates set_weight (weighted containers),
    set_edge_metadata / set_node_metadata (the record is replaced), set_attr_to_* (one field is set),
    remove_attr_from_* (one present field is deleted) on a present hyperedge / node, set_attr_to_hypergraph_metadata."""
    name = op[0]
    if name == "add_node":
        assert op[1] not in st["nodes"]
        st["nodes"][op[1]] = _dc(op[2])
    elif name == "add_edge":
        r = _dc(op[1])
        assert rec_key(kind, r) not in st["recs"]
        for n in rec_nodes(kind, r):
            st["nodes"].setdefault(n, {})
        st["recs"][rec_key(kind, r)] = r
    elif name == "remove_edge":
        del st["recs"][rec_key(kind, op[1])]
    elif name == "remove_node":
        n, keep = op[1], op[2]
        for k, r in list(st["recs"].items()):
            if n in rec_nodes(kind, r):
                del st["recs"][k]
                if keep:
                    assert kind != "D"
                    rest = [x for x in r["e"] if x != n]
                    if rest:
                        r2 = dict(r, e=rest)
                        assert rec_key(kind, r2) not in st["recs"]
                        st["recs"][rec_key(kind, r2)] = r2
        del st["nodes"][n]
    elif name == "clear":
        st["nodes"], st["recs"], st["hmeta"], st["exact"] = {}, {}, _dc(op[1]), True
    elif name == "set_weight":  # weighted containers only
        st["recs"][rec_key(kind, op[1])]["w"] = op[2]
    elif name == "set_edge_md":
        st["recs"][rec_key(kind, op[1])]["md"] = _dc(op[2])
    elif name == "set_edge_attr":
        assert op[2] not in RESERVED
        st["recs"][rec_key(kind, op[1])]["md"][op[2]] = _dc(op[3])
    elif name == "del_edge_attr":
        del st["recs"][rec_key(kind, op[1])]["md"][op[2]]
    elif name == "set_node_md":
        assert op[1] in st["nodes"]
        st["nodes"][op[1]] = _dc(op[2])
    elif name == "set_node_attr":
        st["nodes"][op[1]][op[2]] = _dc(op[3])
    elif name == "del_node_attr":
        del st["nodes"][op[1]][op[2]]
    elif name == "set_hmeta_attr":
        assert op[1] not in ("weighted", "type")
        st["hmeta"][op[1]] = _dc(op[2])
    else:
        raise ValueError(f"unknown step {name}")


def hist_model(spec):
    st = {"nodes": {}, "recs": {}, "hmeta": _dc(spec["hmeta"]), "exact": False}
    for op in spec["ops"]:
        model_step(spec["kind"], st, op)
    return st


def apply_ops(h, kind, ops):
    for op in ops:
        name = op[0]
        if name == "add_node":
            h.add_node(op[1], metadata=_dc(op[2]))
        elif name == "add_edge":
            add_edge(h, kind, op[1])
        elif name == "remove_edge":
            remove_edge(h, kind, op[1])
        elif name == "remove_node":
            if op[2]:
                h.remove_node(op[1], keep_edges=True)
            else:
                h.remove_node(op[1])
        elif name == "clear":
            h.clear()
            h.set_hypergraph_metadata(_dc(op[1]))
        elif name in ("set_weight", "set_edge_md", "set_edge_attr", "del_edge_attr"):
            r = op[1]
            e = (tuple(r["e"][0]), tuple(r["e"][1])) if kind == "D" else tuple(r["e"])
            at = e if kind in "HD" else (e, r["t"]) if kind == "T" else (e, r["l"])
            at = (at,) if kind in "HD" else at
            method = {"set_weight": "set_weight", "set_edge_md": "set_edge_metadata",
                      "set_edge_attr": "set_attr_to_edge_metadata", "del_edge_attr": "remove_attr_from_edge_metadata"}[name]
            getattr(h, method)(*at, *_dc(op[2:]))
        elif name == "set_node_md":
            h.set_node_metadata(op[1], _dc(op[2]))
        elif name == "set_node_attr":
            h.set_attr_to_node_metadata(op[1], op[2], _dc(op[3]))
        elif name == "del_node_attr":
            h.remove_attr_from_node_metadata(op[1], op[2])
        elif name == "set_hmeta_attr":
            h.set_attr_to_hypergraph_metadata(op[1], _dc(op[2]))
        else:
            raise ValueError(f"unknown step {name}")


class Hist:
    """History under construction together with its abstract content."""

    def __init__(self, kind, weighted, hmeta):
        self.kind, self.weighted, self.hmeta0, self.ops = kind, weighted, _dc(hmeta), []
        self.st = {"nodes": {}, "recs": {}, "hmeta": _dc(hmeta), "exact": False}

    def do(self, *op):
        op = _dc(list(op))
        model_step(self.kind, self.st, op)
        self.ops.append(op)

    def incident(self, n):
        return [r for r in self.st["recs"].values() if n in rec_nodes(self.kind, r)]

    def can_keep(self, n):
        """Is remove_node(n, keep_edges=True) unambiguous here?"""
        inc = self.incident(n)
        if inc and self.kind == "D":
            return False
        for r in inc:
            rest = [x for x in r["e"] if x != n]
            if rest and rec_key(self.kind, dict(r, e=rest)) in self.st["recs"]:
                return False
        return True

    def spec(self, script):
        return {"kind": self.kind, "weighted": self.weighted, "hmeta": _dc(self.hmeta0),
                "ops": _dc(self.ops), "script": script}

    def mark(self):
        """What follows is applied to the LOADED object (second generation)."""
        self.split = len(self.ops)

    def spec2(self, script):
        return {"kind": self.kind, "weighted": self.weighted, "hmeta": _dc(self.hmeta0),
                "ops": _dc(self.ops[:self.split]), "ops2": _dc(self.ops[self.split:]), "script": script}


def base_hist(base):
    hb = Hist(base["kind"], base["weighted"], base["hmeta"])
    for n, md in base["nodes"]:
        hb.do("add_node", n, md)
    for r in base["records"]:
        hb.do("add_edge", r)
    return hb


def _other(pool, old, i):
    """A member of the pool different from old (rotating with i)."""
    for j in range(len(pool)):
        if pool[(i + j) % len(pool)] != old:
            return _dc(pool[(i + j) % len(pool)])
    return _dc(pool[0])


def _refill(hb, base, i):
    """Refill an emptied object with part of the base content: its first node (and what touches it) stays away, the
    others come back with other metadata / weights."""
    kind = hb.kind
    gone = base["nodes"][0][0] if base["nodes"] else None
    for u, (n, md) in enumerate(base["nodes"][1:]):
        hb.do("add_node", n, _other(NODE_MD, md, i + u))
    for j, r in enumerate(base["records"]):
        if gone in rec_nodes(kind, r):
            continue
        hb.do("add_edge", dict(r, md=_other(EDGE_MD, r["md"], i + j),
                               w=_other(WEIGHTS, r["w"], i + j) if hb.weighted else None))


def scripted_histories(base, i, labelkind, has_clear):
    """Every single edit of each kind on a directly built base object (i rotates the free choices)."""
    kind, weighted = base["kind"], base["weighted"]
    nodes = [n for n, _ in base["nodes"]]
    z = "zz" if labelkind == "str" else 999
    zmd = {"ghost": True, "attrs": {"i": i % 5}}
    for v in nodes:
        hb = base_hist(base)
        hb.do("remove_node", v, False)
        yield hb.spec("remove_node")
        hb = base_hist(base)
        if hb.can_keep(v):
            hb.do("remove_node", v, True)
            yield hb.spec("remove_node keep_edges")
        hb = base_hist(base)
        old, inc = hb.st["nodes"][v], hb.incident(v)
        hb.do("remove_node", v, False)
        hb.do("add_node", v, _other(NODE_MD, old, i))
        if inc:
            r = inc[i % len(inc)]
            hb.do("add_edge", dict(r, md=_other(EDGE_MD, r["md"], i)))
        yield hb.spec("re-inserted node")
    for j, r in enumerate(base["records"]):
        hb = base_hist(base)
        hb.do("remove_edge", rec_ident(r))
        yield hb.spec("remove_edge")
        hb.do("add_edge", dict(r, md=_other(EDGE_MD, r["md"], i + j), w=_other(WEIGHTS, r["w"], i + j) if weighted else None))
        yield hb.spec("re-inserted hyperedge")
    hb = base_hist(base)
    hb.do("add_node", z, zmd)
    hb.do("remove_node", z, bool(i % 2))
    yield hb.spec("added then removed node with metadata")
    for u, v in enumerate(nodes):
        e = [[[z], [v]], [[v], [z]]][(i + u) % 2] if kind == "D" else [[z, v], [v, z]][(i + u) % 2]
        r = {"e": e, "md": _dc(EDGE_MD[(i + u + 1) % len(EDGE_MD)]), "w": WEIGHTS[(i + u) % len(WEIGHTS)] if weighted else None}
        if kind == "T":
            r["t"] = TIMES[(i + u) % 2]
        if kind == "M":
            r["l"] = LAYERS[(i + u) % 2]
        for keep in (False, True):
            hb = base_hist(base)
            hb.do("add_node", z, zmd)
            hb.do("add_edge", r)
            if keep and not hb.can_keep(z):
                continue
            hb.do("remove_node", z, keep)
            yield hb.spec("added then removed node with metadata and a hyperedge" + (" (keep_edges)" if keep else ""))
    if has_clear:
        hb = base_hist(base)
        hb.do("clear", HG_MD[(i + 1) % len(HG_MD)])
        _refill(hb, base, i)
        yield hb.spec("clear and refill")
    hb = base_hist(base)
    for u, v in enumerate(nodes):
        hb.do("remove_node", v, bool((i + u) % 2) and hb.can_keep(v))
    _refill(hb, base, i + 1)
    yield hb.spec("emptied by removals and refilled")


def hist_plans(quick):
    if quick:
        return {"H": [(0, 0), (1, 1), (2, 2), (3, 2)], "D": [(2, 2), (3, 2)], "T": [(1, 2), (2, 2), (3, 2)],
                "M": [(1, 2), (2, 2), (3, 2)]}
    return {"H": [(0, 0), (1, 1), (2, 3), (3, 3), (4, 2)], "D": [(2, 2), (3, 3), (4, 1)], "T": [(1, 2), (2, 3), (3, 3), (4, 1)],
            "M": [(1, 2), (2, 3), (3, 3), (4, 1)]}


def random_record(rng, hb, pool, max_size=4):
    kind = hb.kind
    cur = list(hb.st["nodes"])
    for _ in range(6):
        members = list(cur)
        absent = [x for x in pool if x not in hb.st["nodes"]]
        if absent and rng.random() < 0.15:
            members.append(rng.choice(absent))  # a member the object does not hold yet: appears with empty metadata
        if len(members) < (2 if kind == "D" else 1):
            return None
        if kind == "D":
            ns = rng.sample(members, rng.randrange(2, min(len(members), max_size) + 1))
            cut = rng.randrange(1, len(ns))
            e = [ns[:cut], ns[cut:]]
        else:
            e = rng.sample(members, rng.randrange(1, min(len(members), max_size) + 1))
        r = {"e": e, "md": rand_md(rng), "w": (rng.choice([1, 2, 5, 12, 0.5, 2.75, 1.0, 1e-3, 100]) if hb.weighted else None)}
        if kind == "T":
            r["t"] = rng.choice([0, 1, 2, 5, 17])
        if kind == "M":
            r["l"] = rng.choice(["a", "b", "layer 3"])
        if rec_key(kind, r) not in hb.st["recs"]:
            return r
    return None


def random_history(rng, kind, weighted, labelkind, has_clear):
    base = random_spec(rng, kind, weighted, labelkind, max_nodes=6, max_recs=5, max_size=4)
    hb = base_hist(base)
    held = [n for n, _ in base["nodes"]]
    extra = [x for x in ([61, 62, 63, 64] if labelkind == "int" else ["q", "n3", "33", "W"]) if x not in held]
    pool = held + extra[:3]
    for _ in range(rng.randrange(2, 11)):
        c = rng.random()
        nodes, recs = list(hb.st["nodes"]), list(hb.st["recs"].values())
        if c < 0.18:
            absent = [x for x in pool if x not in hb.st["nodes"]]
            if absent:
                hb.do("add_node", rng.choice(absent), rand_md(rng, 0.15))
        elif c < 0.36:
            r = random_record(rng, hb, pool)
            if r is not None:
                hb.do("add_edge", r)
        elif c < 0.50:
            if recs:
                hb.do("remove_edge", rec_ident(rng.choice(recs)))
        elif c < 0.60:
            if recs:
                r = rng.choice(recs)
                hb.do("remove_edge", rec_ident(r))
                hb.do("add_edge", dict(r, md=rand_md(rng), w=(rng.choice([3, 0.25, 8, 1.5]) if weighted else None)))
        elif c < 0.95 or not has_clear:
            if nodes:
                v = rng.choice(nodes)
                hb.do("remove_node", v, rng.random() < 0.45 and hb.can_keep(v))
        else:
            hb.do("clear", rand_md(rng))
    if not any(op[0] in REMOVING for op in hb.ops) and hb.st["nodes"]:
        hb.do("remove_node", list(hb.st["nodes"])[0], False)
    return hb.spec("random")


def node_view(h):
    """Node metadata as reported node by node, for exactly the nodes get_nodes() lists."""
    getter = getattr(h, "get_node_metadata", None)
    allmd = None if getter is not None else h.get_nodes(metadata=True)
    return {n: _dc(getter(n) if getter is not None else allmd[n]) for n in h.get_nodes()}


def conforms(snap, nview, spec, model):
    """Does the object report exactly the abstract content of its history?  The node set is what get_nodes() lists,
    node metadata what is reported for these nodes; get_nodes(metadata=True) is looked at separately."""
    kind = spec["kind"]
    if snap["type"] != KINDS[kind] or snap["weighted"] != spec["weighted"]:
        return False
    if len(snap["node_list"]) != len(model["nodes"]) or set(snap["node_list"]) != set(model["nodes"]):
        return False
    if nview != model["nodes"]:
        return False
    if set(snap["records"]) != set(model["recs"]):
        return False
    for k, r in model["recs"].items():
        w, md = snap["records"][k]
        if md != r["md"] or (spec["weighted"] and not (w == r["w"] and type(w) is type(r["w"]))):
            return False
    hm = snap["hmeta"]
    if not isinstance(hm, dict):
        return False
    if model["exact"]:
        return hm == model["hmeta"]
    return all(k in hm and hm[k] == v for k, v in model["hmeta"].items())


def hist_desc(spec, model, fmt):
    kind = spec["kind"]
    return {"k": kind, "w": spec["weighted"], "fmt": fmt, "script": spec["script"], "steps": len(spec["ops"]),
            "h": zlib.crc32(json.dumps([spec["hmeta"], spec["ops"]], sort_keys=True).encode()),
            "n": list(model["nodes"]), "r": [[r["e"], r.get("t", r.get("l"))] for r in model["recs"].values()]}


def compare_with_model(chk, loaded, nv, model, weighted, ref, all_md_ok):
    """The clauses of the statement on a loaded object (snapshot `loaded`, node by node view `nv`) against the abstract
    content `model`.  `ref` is the snapshot of an object that conforms to the model (see conforms): it supplies what
    the model leaves open - the weights an unweighted container reports and the entries the constructor adds to the
    hypergraph metadata.  chk(cond, clause, expected, observed) receives one call per clause."""
    want_nodes, want = model["nodes"], model["recs"]
    chk(len(loaded["node_list"]) == len(want_nodes) and set(loaded["node_list"]) == set(want_nodes)
        and (not all_md_ok or set(loaded["nodes"]) == set(want_nodes)),
        "same nodes (including isolated ones)", lambda: sorted(want_nodes, key=repr),
        lambda: {"get_nodes()": loaded["node_list"], "get_nodes(metadata=True)": sorted(loaded["nodes"], key=repr)})
    chk(set(loaded["records"]) == set(want), "same hyperedges with their direction, times or layers",
        lambda: sorted(map(repr, want)), lambda: sorted(map(repr, loaded["records"])))
    chk(loaded["weighted"] == weighted, "same weightedness", weighted, loaded["weighted"])
    common = [k for k in want if k in loaded["records"]]
    if loaded["weighted"] == weighted:
        exp = {k: (want[k]["w"] if weighted else ref["records"][k][0]) for k in common}
        bad = [k for k in common if not loaded["records"][k][0] == exp[k]]
        chk(not bad, "same weights", lambda: {repr(k): exp[k] for k in bad},
            lambda: {repr(k): loaded["records"][k][0] for k in bad})
    chk(loaded["hmeta"] == ref["hmeta"], "same hypergraph metadata", ref["hmeta"], loaded["hmeta"])
    badn = [n for n in want_nodes if (n in nv and nv[n] != want_nodes[n])
            or (all_md_ok and n in loaded["nodes"] and loaded["nodes"][n] != want_nodes[n])]
    chk(not badn, "same node metadata", lambda: {repr(n): want_nodes[n] for n in badn},
        lambda: {repr(n): [nv.get(n), loaded["nodes"].get(n)] for n in badn})
    bade = [k for k in common if strip_reserved(loaded["records"][k][1]) != strip_reserved(want[k]["md"])]
    chk(not bade, "same hyperedge metadata modulo reserved keys", lambda: {repr(k): want[k]["md"] for k in bade},
        lambda: {repr(k): loaded["records"][k][1] for k in bade})


def history_case(rep, spec, fmt, tmpdir, model=None):
    """Save -> load of an object reached through a history; the loaded object is compared with the abstract content."""
    from hypergraphx.readwrite import save_hypergraph, load_hypergraph
    kind = spec["kind"]
    tname = KINDS[kind]
    tag = f" [{tname}/{fmt}]"
    rp = {"part": "history", "spec": spec, "fmt": fmt}
    model = model or hist_model(spec)
    try:
        with quiet():
            h = new_container(spec)
            apply_ops(h, kind, spec["ops"])
            before, nv_before = snapshot(h), node_view(h)
    except Exception:
        return "history raised"
    if not conforms(before, nv_before, spec, model):
        return "history mismatch"
    all_md_ok = before["nodes"] == model["nodes"]  # does get_nodes(metadata=True) of the saved object agree as well?
    path = _fresh(tmpdir, "g." + fmt)
    try:
        with quiet():
            save_hypergraph(h, path, binary=(fmt == "hgx"))
    except Exception as ex:
        rep.check(False, SAVE, RAISES, spec, observed=repr(ex), key=f"{SAVE}:{RAISES}{tag}", replay=rp)
        return "save raised"
    rep.check(True, SAVE, RAISES, spec)
    try:
        after, nv_after = snapshot(h), node_view(h)
    except Exception as ex:
        after, nv_after = {"getter raised": repr(ex)}, None
    cl = "saving does not modify the object being saved"
    rep.check(after == before and nv_after == nv_before, SAVE, cl, spec, expected=lambda: _show(before),
              observed=lambda: _show(after) if "type" in after else after, key=f"{SAVE}:{cl}{tag}", replay=rp)
    try:
        with quiet():
            g = load_hypergraph(path)
    except Exception as ex:
        rep.check(False, LOAD, RAISES, spec, observed=repr(ex), key=f"{LOAD}:{RAISES}{tag}", replay=rp)
        return "load raised"
    rep.check(True, LOAD, RAISES, spec)
    cl = "returns an object of the same type"
    if not rep.check(type(g) is type(h), LOAD, cl, spec, expected=tname, observed=type(g).__name__,
                     key=f"{LOAD}:{cl}{tag}", replay=rp):
        return "done"
    try:
        loaded, nv = snapshot(g), node_view(g)
    except Exception as ex:
        cl = "same hyperedges with their direction, times or layers"
        rep.check(False, LOAD, cl, spec, observed="public getter of the loaded object raised " + repr(ex),
                  key=f"{LOAD}:{cl} (getters raise){tag}", replay=rp)
        return "done"

    def chk(cond, cl, expected, observed):
        rep.check(cond, LOAD, cl, spec, expected=expected, observed=observed, key=f"{LOAD}:{cl}{tag}", replay=rp)

    compare_with_model(chk, loaded, nv, model, spec["weighted"], before, all_md_ok)
    return "done"


# ------------------------------------------------------------------------------------------------ second generation
# A loaded object is not only looked at: it is edited through the public mutators, compared with the abstract content
# (that of the history before saving plus the edits), saved again and loaded again.  A spec carries two step lists:
# "ops" builds the object that is saved first, "ops2" is applied to what load_hypergraph returned.
SHORT = {"H": "Hypergraph", "D": "Directed", "T": "Temporal", "M": "Multiplex"}
FMT_PAIRS = [("json", "json"), ("json", "hgx"), ("hgx", "json"), ("hgx", "hgx")]
ATTR_VALUES = [7, "late", {"deep": [1, {"x": None}]}, [0.5, "é"], True, None]


def edit_caps(kind):
    """Which in-place setters the container type offers (MultiplexHypergraph has no set_edge_metadata /
    set_node_metadata)."""
    c = _cls(kind)
    return {"set_edge_md": hasattr(c, "set_edge_metadata"), "set_node_md": hasattr(c, "set_node_metadata")}


def fresh_record(hb, salt, member=None):
    """A record the abstract content does not hold, over its nodes (plus `member`, which must then belong to it);
    at a present or at a new time / layer; None if there is none."""
    kind = hb.kind
    labels = list(hb.st["nodes"])
    if member is not None and member not in labels:
        labels.append(member)
    labels = labels[:5]
    sets = [list(c) for k in range(1, len(labels) + 1) for c in itertools.combinations(labels, k)]
    if kind == "H":
        cands = [{"e": s} for s in sets]
    elif kind == "D":
        cands = [{"e": [s, t]} for s in sets for t in sets if not set(s) & set(t)]
    elif kind == "T":
        cands = [{"e": s, "t": t} for s in sets for t in TIMES + (31,)]
    else:
        cands = [{"e": s, "l": l} for s in sets for l in LAYERS + ("zz",)]
    cands = [r for r in cands if rec_key(kind, r) not in hb.st["recs"] and (member is None or member in rec_nodes(kind, r))]
    if not cands:
        return None
    r = cands[(salt * 7 + 3) % len(cands)]
    if kind == "D":
        r["e"] = [_rot(r["e"][0], salt), _rot(r["e"][1], salt + 1)]
    else:
        r["e"] = _rot(r["e"], salt)
    r["md"] = _dc(EDGE_MD[(salt + 1) % len(EDGE_MD)])
    r["w"] = [4, 1.5, 9, 0.125][salt % 4] if hb.weighted else None
    return r


def scripted_second(base, i, labelkind, caps):
    """Every single edit of each kind on the object loaded from the file of a directly built base object (or of the
    base object less one record), i rotating the free choices."""
    kind, weighted = base["kind"], base["weighted"]
    nodes = [n for n, _ in base["nodes"]]
    z = "zz" if labelkind == "str" else 999
    zmd = {"late": True, "attrs": {"i": i % 5}}

    def start(removed=None):
        hb = base_hist(base)
        if removed is not None:
            hb.do("remove_edge", rec_ident(removed))
        hb.mark()
        return hb

    def again(r, k):
        return dict(r, md=_other(EDGE_MD, r["md"], k), w=_other(WEIGHTS, r["w"], k) if weighted else None)

    for j, r in enumerate(base["records"]):
        k = i + j
        if weighted:
            hb = start()
            hb.do("set_weight", rec_ident(r), _other(WEIGHTS, r["w"], k))
            yield hb.spec2("set_weight")
        hb = start()
        hb.do("set_edge_attr", rec_ident(r), "note", ATTR_VALUES[k % len(ATTR_VALUES)])
        if r["md"]:
            hb.do("del_edge_attr", rec_ident(r), sorted(r["md"])[k % len(r["md"])])
        yield hb.spec2("hyperedge metadata fields set / deleted")
        if caps["set_edge_md"]:
            hb = start()
            hb.do("set_edge_md", rec_ident(r), _other(EDGE_MD, r["md"], k))
            yield hb.spec2("hyperedge metadata replaced")
        hb = start()
        hb.do("remove_edge", rec_ident(r))
        hb.do("add_edge", again(r, k))
        yield hb.spec2("hyperedge removed and re-inserted")
        hb = start()
        hb.do("remove_edge", rec_ident(r))
        f = fresh_record(hb, k)
        if f is not None:
            hb.do("add_edge", f)
            yield hb.spec2("hyperedge removed, new hyperedge")
        hb = start(removed=r)
        f = fresh_record(hb, k + 1)
        if f is not None and rec_key(kind, f) != rec_key(kind, r):
            hb.do("add_edge", f)
        hb.do("add_edge", again(r, k + 1))
        if weighted:
            hb.do("set_weight", rec_ident(r), _other(WEIGHTS, hb.st["recs"][rec_key(kind, r)]["w"], k))
        yield hb.spec2("hyperedge removed before saving; new hyperedge and re-insertion after loading")
    for u, v in enumerate(nodes):
        k = i + u
        hb = start()
        hb.do("set_node_attr", v, "late", ATTR_VALUES[(k + 2) % len(ATTR_VALUES)])
        old = hb.st["nodes"][v]
        if len(old) > 1:
            hb.do("del_node_attr", v, sorted(x for x in old if x != "late")[k % (len(old) - 1)])
        yield hb.spec2("node metadata fields set / deleted")
        if caps["set_node_md"]:
            hb = start()
            hb.do("set_node_md", v, _other(NODE_MD, hb.st["nodes"][v], k))
            yield hb.spec2("node metadata replaced")
        for keep in (False, True):
            hb = start()
            if keep and (not hb.incident(v) or not hb.can_keep(v)):
                continue
            hb.do("remove_node", v, keep)
            f = fresh_record(hb, k)
            if f is not None:
                hb.do("add_edge", f)
            yield hb.spec2("remove_node" + (" keep_edges" if keep else "") + ", new hyperedge")
        hb = start()
        hb.do("add_node", z, zmd)
        f = fresh_record(hb, k, member=z)
        if f is not None:
            hb.do("add_edge", f)
        yield hb.spec2("new node joined by a new hyperedge")
    hb = start()
    for s in range(2):
        f = fresh_record(hb, i + s)
        if f is not None:
            hb.do("add_edge", f)
            yield hb.spec2("new hyperedge" if s == 0 else "two new hyperedges")
    hb = start()
    hb.do("add_node", z, zmd)
    yield hb.spec2("new isolated node")
    hb = start()
    hb.do("set_hmeta_attr", "edited", ATTR_VALUES[i % len(ATTR_VALUES)])
    yield hb.spec2("hypergraph metadata field set")
    hb = start()
    for j, r in enumerate(base["records"]):
        if weighted:
            hb.do("set_weight", rec_ident(r), _other(WEIGHTS, r["w"], i + j + 1))
    if nodes:
        hb.do("set_node_attr", nodes[i % len(nodes)], "late", ATTR_VALUES[(i + 1) % len(ATTR_VALUES)])
    hb.do("add_node", z, zmd)
    f = fresh_record(hb, i + 2, member=z)
    if f is not None:
        hb.do("add_edge", f)
    if base["records"]:
        hb.do("remove_edge", rec_ident(base["records"][0]))
        last = base["records"][-1]
        if len(base["records"]) > 1:
            hb.do("set_edge_attr", rec_ident(last), "note", ATTR_VALUES[(i + 3) % len(ATTR_VALUES)])
    f = fresh_record(hb, i + 4)
    if f is not None:
        hb.do("add_edge", f)
    hb.do("set_hmeta_attr", "edited", ATTR_VALUES[(i + 2) % len(ATTR_VALUES)])
    yield hb.spec2("all kinds of edit in a row")


def second_plans(quick):
    if quick:
        return {"H": [(0, 0), (1, 1), (2, 2), (3, 1)], "D": [(2, 2), (3, 1)], "T": [(1, 2), (2, 2), (3, 1)],
                "M": [(1, 2), (2, 2), (3, 1)]}
    return {"H": [(0, 0), (1, 1), (2, 3), (3, 3)], "D": [(2, 2), (3, 2)], "T": [(1, 2), (2, 3), (3, 2)],
            "M": [(1, 2), (2, 3), (3, 2)]}


def random_edits(rng, hb, pool, caps, has_clear, n_steps):
    """Random steps on the abstract content of hb, of every kind (construction, removal, in-place update)."""
    kind, weighted = hb.kind, hb.weighted
    for _ in range(n_steps):
        c = rng.random()
        nodes, recs = list(hb.st["nodes"]), list(hb.st["recs"].values())
        if c < 0.10:
            absent = [x for x in pool if x not in hb.st["nodes"]]
            if absent:
                hb.do("add_node", rng.choice(absent), rand_md(rng, 0.15))
        elif c < 0.30:
            r = random_record(rng, hb, pool)
            if r is not None:
                hb.do("add_edge", r)
        elif c < 0.38:
            if recs:
                hb.do("remove_edge", rec_ident(rng.choice(recs)))
        elif c < 0.46:
            if recs:
                r = rng.choice(recs)
                hb.do("remove_edge", rec_ident(r))
                hb.do("add_edge", dict(r, md=rand_md(rng), w=(rng.choice([3, 0.25, 8, 1.5]) if weighted else None)))
        elif c < 0.56:
            if nodes:
                v = rng.choice(nodes)
                hb.do("remove_node", v, rng.random() < 0.45 and hb.can_keep(v))
        elif c < 0.70:
            if recs and weighted:
                hb.do("set_weight", rec_ident(rng.choice(recs)), rng.choice([3, 0.25, 8, 1.5, 6.0, 11]))
        elif c < 0.80:
            if recs:
                r = rng.choice(recs)
                keys = sorted(r["md"])
                if keys and rng.random() < 0.3:
                    hb.do("del_edge_attr", rec_ident(r), rng.choice(keys))
                elif caps["set_edge_md"] and rng.random() < 0.4:
                    hb.do("set_edge_md", rec_ident(r), rand_md(rng))
                else:
                    hb.do("set_edge_attr", rec_ident(r), rng.choice(["note", "name", "x", "w8", "ü"]), rand_json(rng, 2))
        elif c < 0.92:
            if nodes:
                v = rng.choice(nodes)
                keys = sorted(hb.st["nodes"][v])
                if keys and rng.random() < 0.3:
                    hb.do("del_node_attr", v, rng.choice(keys))
                elif caps["set_node_md"] and rng.random() < 0.4:
                    hb.do("set_node_md", v, rand_md(rng))
                else:
                    hb.do("set_node_attr", v, rng.choice(["note", "name", "x", "w8", "ü"]), rand_json(rng, 2))
        elif c < 0.98 or not has_clear:
            hb.do("set_hmeta_attr", rng.choice(["edited", "name", "x"]), rand_json(rng, 2))
        else:
            hb.do("clear", rand_md(rng))


def random_second(rng, kind, weighted, labelkind, has_clear, caps):
    """A random object, optionally some random steps (removals included) before the first save, 1-8 random steps on
    the loaded object."""
    base = random_spec(rng, kind, weighted, labelkind, max_nodes=6, max_recs=5, max_size=4)
    hb = base_hist(base)
    held = [n for n, _ in base["nodes"]]
    extra = [x for x in ([61, 62, 63, 64] if labelkind == "int" else ["q", "n3", "33", "W"]) if x not in held]
    pool = held + extra[:3]
    if rng.random() < 0.6:
        random_edits(rng, hb, pool, caps, has_clear, rng.randrange(1, 6))
    hb.mark()
    random_edits(rng, hb, pool, caps, has_clear, rng.randrange(1, 9))
    if len(hb.ops) == hb.split:  # every draw was a step that had nothing to act on
        hb.do("set_hmeta_attr", "edited", rand_json(rng, 1))
    return hb.spec2("random")


def second_models(spec):
    st = {"nodes": {}, "recs": {}, "hmeta": _dc(spec["hmeta"]), "exact": False}
    for op in spec["ops"]:
        model_step(spec["kind"], st, op)
    m1 = _dc(st)
    for op in spec["ops2"]:
        model_step(spec["kind"], st, op)
    return m1, st


def second_desc(spec, model, fmt1, fmt2):
    d = hist_desc(dict(spec, ops=spec["ops"] + [["save+load"]] + spec["ops2"]), model, fmt1 + ">" + fmt2)
    d["steps"] = [len(spec["ops"]), len(spec["ops2"])]
    return d


def second_twin(spec, m2):
    """The never-saved twin: the same steps and edits on an object that does not go through a file.  Returns its
    snapshot, or the reason why the case cannot be judged."""
    kind = spec["kind"]
    try:
        with quiet():
            twin = new_container(spec)
            apply_ops(twin, kind, spec["ops"])
            apply_ops(twin, kind, spec["ops2"])
            ref, ref_nv = snapshot(twin), node_view(twin)
    except Exception:
        return "steps raised on a never-saved object"
    if not conforms(ref, ref_nv, spec, m2):
        return "never-saved object does not hold the abstract content"
    return ref


def second_case(rep, spec, fmt1, fmt2s, tmpdir, models=None, ref=None):
    """save -> load -> edit the loaded object -> compare with the abstract content -> for each format of fmt2s: save
    again -> load again -> compare again."""
    from hypergraphx.readwrite import save_hypergraph, load_hypergraph
    kind = spec["kind"]
    tname = KINDS[kind]
    weighted = spec["weighted"]
    rp = {"part": "second", "spec": spec, "fmt": fmt1, "fmt2": list(fmt2s)}
    m1, m2 = models or second_models(spec)
    ref = ref if ref is not None else second_twin(spec, m2)
    if isinstance(ref, str):
        return ref
    all_md_ok = ref["nodes"] == m2["nodes"]
    # first generation (its clauses belong to the round-trip / history cases: nothing is evaluated here)
    try:
        with quiet():
            h = new_container(spec)
            apply_ops(h, kind, spec["ops"])
            first, first_nv = snapshot(h), node_view(h)
    except Exception:
        return "history raised"
    if not conforms(first, first_nv, spec, m1):
        return "history mismatch"
    try:
        with quiet():
            path = _fresh(tmpdir, "g1." + fmt1)
            save_hypergraph(h, path, binary=(fmt1 == "hgx"))
            g = load_hypergraph(path)
            got, got_nv = snapshot(g), node_view(g)
    except Exception:
        return "first save / load raised"
    wrong = []
    if type(g) is not type(h):
        wrong.append("type")
    else:
        compare_with_model(lambda cond, cl, e, o: cond or wrong.append(cl), got, got_nv, m1, weighted, first,
                           first["nodes"] == m1["nodes"])
    if wrong:
        return "first generation differs already"

    def chk(cond, cl, expected, observed, stage, sub=""):
        return rep.check(cond, LOAD, cl, spec, expected=expected, observed=observed,
                         key=f"{LOAD}:{cl}{sub} [gen2 {stage}] [{SHORT[kind]}/{fmt1}]", replay=rp)

    # the edits, on the loaded object
    cl_e = "same hyperedges with their direction, times or layers"
    try:
        with quiet():
            apply_ops(g, kind, spec["ops2"])
    except Exception as ex:
        rep.check(False, LOAD, cl_e, spec, expected="the loaded object takes the edits the never-saved object takes",
                  observed=repr(ex), key=f"{LOAD}:same hyperedges (an edit of the loaded object raises) [gen2 edit] "
                                         f"[{SHORT[kind]}/{fmt1}]", replay=rp)
        return "done"
    try:
        edited, edited_nv = snapshot(g), node_view(g)
    except Exception as ex:
        rep.check(False, LOAD, cl_e, spec, observed="public getter of the edited loaded object raised " + repr(ex),
                  key=f"{LOAD}:same hyperedges (getters raise) [gen2 edit] [{SHORT[kind]}/{fmt1}]", replay=rp)
        return "done"
    ok = []
    compare_with_model(lambda cond, cl, e, o: ok.append(chk(cond, cl, e, o, "edit")), edited, edited_nv, m2, weighted,
                       ref, all_md_ok)
    if not all(ok):
        return "done"
    # second round trip(s)
    for fmt2 in fmt2s:
        tag = f" [gen2 save] [{SHORT[kind]}/{fmt1}>{fmt2}]"
        path = _fresh(tmpdir, "g2." + fmt2)
        try:
            with quiet():
                save_hypergraph(g, path, binary=(fmt2 == "hgx"))
        except Exception as ex:
            rep.check(False, SAVE, RAISES, spec, observed=repr(ex), key=f"{SAVE}:{RAISES}{tag}", replay=rp)
            continue
        rep.check(True, SAVE, RAISES, spec)
        try:
            after, after_nv = snapshot(g), node_view(g)
        except Exception as ex:
            after, after_nv = {"getter raised": repr(ex)}, None
        cl = "saving does not modify the object being saved"
        rep.check(after == edited and after_nv == edited_nv, SAVE, cl, spec, expected=lambda: _show(edited),
                  observed=lambda: _show(after) if "type" in after else after, key=f"{SAVE}:{cl}{tag}", replay=rp)
        try:
            with quiet():
                g2 = load_hypergraph(path)
        except Exception as ex:
            rep.check(False, LOAD, RAISES, spec, observed=repr(ex), key=f"{LOAD}:{RAISES}{tag}", replay=rp)
            continue
        rep.check(True, LOAD, RAISES, spec)
        cl = "returns an object of the same type"
        if not rep.check(type(g2) is type(g), LOAD, cl, spec, expected=tname, observed=type(g2).__name__,
                         key=f"{LOAD}:{cl}{tag}", replay=rp):
            continue
        try:
            loaded, nv = snapshot(g2), node_view(g2)
        except Exception as ex:
            rep.check(False, LOAD, cl_e, spec, observed="public getter of the loaded object raised " + repr(ex),
                      key=f"{LOAD}:same hyperedges (getters raise){tag}", replay=rp)
            continue
        compare_with_model(lambda cond, cl, e, o: rep.check(cond, LOAD, cl, spec, expected=e, observed=o,
                                                            key=f"{LOAD}:{cl}{tag}", replay=rp),
                           loaded, nv, m2, weighted, ref, all_md_ok)
        if after != edited or after_nv != edited_nv:
            break  # the object is no longer the one the abstract content describes
    return "done"


# ------------------------------------------------------------------------------------------------ hMETIS
def ref_hgr(text):
    """Reference reader: whitespace separated integers, '%' comment lines, blank lines ignored."""
    rows = [ln.split() for ln in text.splitlines() if ln.strip() and not ln.strip().startswith("%")]
    n_edges = int(rows[0][0])
    fmt = int(rows[0][2]) if len(rows[0]) > 2 else 0
    has_w = fmt % 10 == 1
    edges = {}
    for toks in rows[1:1 + n_edges]:
        xs = [int(t) for t in toks]
        edges[frozenset(xs[1:] if has_w else xs)] = xs[0] if has_w else None
    return has_w, edges


N_STYLES = 7
STYLE_HEADER_BLANKS = 7


def render_hgr(edges, weights, n_vertices, fmt, style, vweights):
    """edges: list of vertex lists (1-based); fmt: None | 1 | 10 | 11."""
    sep = "  " if style == 6 else " "
    head = [str(len(edges)), str(n_vertices)] + ([str(fmt)] if fmt is not None else [])
    header = ("  " if style == STYLE_HEADER_BLANKS else " ").join(head)
    body = []
    for e, w in zip(edges, weights):
        toks = ([str(w)] if fmt in (1, 11) else []) + [str(v) for v in e]
        body.append(sep.join(toks))
    tail = [str(x) for x in vweights[:n_vertices]] if fmt in (10, 11) else []
    out = []
    if style == 1:
        out += ["% written by a generator", "", header] + body + tail
    elif style == 2:
        out += [header]
        for ln in body + tail:
            out += ["% next record", ln]
    elif style == 3:
        out += [header, ""]
        for ln in body + tail:
            out += [ln, "", "%"]
        out += ["", ""]
    elif style == 4:
        out += ["   % indented comment", " " + header + " "] + ["  " + ln + "  " for ln in body + tail]
    elif style == 5:
        out += [header, "% hyperedges follow"] + body + ["%% vertex weights"] + tail + ["% end of file"]
    else:
        out += [header] + body + tail
    return "\n".join(out) + ("\n" if style % 2 == 0 else "")


def hgr_case(rep, text, tmpdir, style=0):
    from hypergraphx.readwrite import load_hypergraph
    fn = LOAD + "[hgr]"
    sub = " [repeated blanks in header]" if style == STYLE_HEADER_BLANKS else ""
    rp = {"part": "hgr", "text": text, "style": style}
    path = _fresh(tmpdir, "g.hgr")
    with open(path, "w") as f:
        f.write(text)
    has_w, want = ref_hgr(text)
    try:
        with quiet():
            h = load_hypergraph(path)
    except BaseException as ex:  # the reader "raises" plain strings in places
        if isinstance(ex, (KeyboardInterrupt, SystemExit)):
            raise
        rep.check(False, fn, RAISES, text, observed=repr(ex), key=f"{fn}:{RAISES}{sub}", replay=rp)
        return
    rep.check(True, fn, RAISES, text)
    try:
        got_edges = [tuple(e) for e in h.get_edges()]
        got = {frozenset(e) for e in got_edges}
        cl = "builds exactly the listed hyperedges"
        ok = rep.check(got == set(want) and len(got_edges) == len(want), fn, cl, text,
                       expected=lambda: sorted(sorted(e) for e in want), observed=lambda: sorted(map(sorted, got_edges)),
                       key=f"{fn}:{cl}{sub}", replay=rp)
        if has_w and ok:
            cl = "with their weights"
            obs = {e: h.get_weight(tuple(sorted(e))) for e in want}
            rep.check(h.is_weighted() and all(obs[e] == want[e] for e in want), fn, cl, text,
                      expected=lambda: {repr(sorted(e)): w for e, w in want.items()},
                      observed=lambda: {"is_weighted": h.is_weighted(), **{repr(sorted(e)): w for e, w in obs.items()}},
                      key=f"{fn}:{cl}{sub}", replay=rp)
    except Exception as ex:
        rep.check(False, fn, "builds exactly the listed hyperedges", text, observed="getter raised " + repr(ex),
                  key=f"{fn}:builds exactly the listed hyperedges (getters raise){sub}", replay=rp)


def hgr_files_exhaustive(max_v, kmax_by_v):
    i = 0
    for v in range(1, max_v + 1):
        sets = [c for k in range(1, v + 1) for c in itertools.combinations(range(1, v + 1), k)]
        for k in range(0, kmax_by_v(v) + 1):
            for es in itertools.combinations(sets, k):
                for fmt in (None, 1, 10, 11):
                    style = i % N_STYLES
                    edges = [_rot(e, i + j) for j, e in enumerate(_rot(es, i))]
                    weights = [[3, 1, 12, 7, 100][(i + j) % 5] for j in range(len(edges))]
                    yield render_hgr(edges, weights, v, fmt, style, [5, 1, 2, 9, 4, 3, 8, 6]), style, k
                    i += 1


def hgr_file_random(rng, style=None):
    v = rng.randrange(1, 9)
    k = rng.randrange(0, 7)
    seen, edges = set(), []
    for _ in range(3 * k):
        if len(edges) >= k:
            break
        e = rng.sample(range(1, v + 1), rng.randrange(1, v + 1))
        if frozenset(e) not in seen:
            seen.add(frozenset(e))
            edges.append(e)
    fmt = rng.choice([None, 1, 10, 11])
    style = rng.randrange(N_STYLES) if style is None else style
    return render_hgr(edges, [rng.randrange(1, 200) for _ in edges], v, fmt, style, [rng.randrange(1, 50) for _ in range(8)]), \
        style, len(edges)


# ------------------------------------------------------------------------------------------------ HIF
def hif_doc(node_names, edge_names, inc_sets, i, rng=None):
    """Document over the given names; which optional parts are present rotates with i (or is drawn from rng)."""
    pick = (lambda n: rng.randrange(n)) if rng is not None else None
    v_nodes = pick(5) if pick else i % 5            # 0 all node records, 1 none, 2 every other, 3 all + isolated, 4 all
    v_edges = pick(4) if pick else (i // 5) % 4     # 0 all edge records, 1 none, 2 every other, 3 all + empty edge
    v_inc = pick(3) if pick else (i // 20) % 3      # 0 bare, 1 weight+attrs, 2 attrs on some
    v_type = pick(3) if pick else (i // 3) % 3      # 0 "undirected", 1 absent, 2 "undirected" + metadata
    incidences = []
    for j, (en, s) in enumerate(zip(edge_names, inc_sets)):
        for m, u in enumerate(s):
            rec = {"edge": en, "node": node_names[u]}
            if v_inc == 1:
                rec["weight"] = 0.5 + j + m
                rec["attrs"] = {"role": ["member", "chair"][(j + m) % 2], "since": {"y": 2000 + m}}
            elif v_inc == 2 and (j + m) % 2 == 0:
                rec["attrs"] = {"k": [j, m]}
            incidences.append(rec)
    incidences = _rot(incidences, i) if rng is None else rng.sample(incidences, len(incidences))
    nodes = []
    for u, nn in enumerate(node_names):
        if v_nodes == 1 or (v_nodes == 2 and u % 2):
            continue
        rec = {"node": nn}
        if (u + i) % 3 != 2:
            rec["attrs"] = _dc(NODE_MD[(u + i) % len(NODE_MD)])
        if (u + i) % 2:
            rec["weight"] = 1 + u
        nodes.append(rec)
    if v_nodes == 3:
        nodes.append({"node": "lonely" if isinstance(node_names[0] if node_names else "", str) else 999,
                      "attrs": {"isolated": True}})
    edges = []
    for j, en in enumerate(edge_names):
        if v_edges == 1 or (v_edges == 2 and j % 2):
            continue
        rec = {"edge": en}
        if (j + i) % 3 != 1:
            rec["attrs"] = _dc(EDGE_MD[(j + i) % len(EDGE_MD)])
        if (j + i) % 2 == 0:
            rec["weight"] = 2.5 * (j + 1)
        edges.append(rec)
    if v_edges == 3:
        edges.append({"edge": "void" if isinstance(edge_names[0] if edge_names else "", str) else 777,
                      "attrs": {"empty": True}})
    doc = {}
    if v_type != 1:
        doc["type"] = "undirected"
    if v_type == 2:
        doc["metadata"] = {"name": "doc", "n": i % 7}
    doc.update(incidences=incidences, nodes=nodes, edges=edges)
    return doc


def hif_docs_exhaustive(max_nodes, kmax):
    i = 0
    for n in range(0, max_nodes + 1):
        sets = [c for k in range(1, n + 1) for c in itertools.combinations(range(n), k)]
        for k in range(0, kmax + 1):
            if n == 0 and k > 0:
                break
            for ss in itertools.combinations(sets, k):
                strn, stre = (i % 2 == 0), ((i // 2) % 2 == 0)
                node_names = (["a", "b", "c", "d"] if strn else [10, 4, 12, 7])[:n]
                edge_names = (["e1", "e0", "f"] if stre else [5, 0, 3])[:k]
                yield hif_doc(node_names, edge_names, _rot(ss, i), i)
                i += 1


def hif_doc_random(rng, i):
    n = rng.randrange(1, 7)
    k = rng.randrange(0, 4)
    uniq = []
    for _ in range(3 * k):
        if len(uniq) >= k:
            break
        s = tuple(rng.sample(range(n), rng.randrange(1, n + 1)))
        if frozenset(s) not in [frozenset(x) for x in uniq]:
            uniq.append(s)
    node_names = rng.sample(["a", "b", "c", "n1", "n10", "é", "x y"], n) if rng.random() < 0.6 else rng.sample(range(100), n)
    edge_names = rng.sample(["e", "f", "g", "edge 1"], len(uniq)) if rng.random() < 0.6 else rng.sample(range(50), len(uniq))
    return hif_doc(node_names, edge_names, uniq, i, rng)


def directed_hif_doc(i):
    names = ["a", "b", "c"] if i % 2 == 0 else [1, 2, 3]
    inc = [{"edge": "e1", "node": names[0], "direction": "tail"}, {"edge": "e1", "node": names[1], "direction": "head"}]
    if i % 3:
        inc.append({"edge": "e2", "node": names[2], "direction": "tail"})
        inc.append({"edge": "e2", "node": names[0], "direction": "head"})
    doc = {"type": "directed", "incidences": _rot(inc, i), "nodes": [{"node": x} for x in names[:1 + i % 3]],
           "edges": [{"edge": "e1", "attrs": {"i": i}}] if i % 2 else []}
    return doc


def hif_case(rep, doc, tmpdir):
    from hypergraphx.readwrite.hif import read_hif
    rp = {"part": "hif", "doc": doc}
    path = _fresh(tmpdir, "g.hif.json")
    with open(path, "w") as f:
        json.dump(doc, f)
    directed = doc.get("type") == "directed"
    sub = " [type=directed]" if directed else ""
    try:
        with quiet():
            h = read_hif(path)
    except BaseException as ex:
        if isinstance(ex, (KeyboardInterrupt, SystemExit)):
            raise
        rep.check(False, HIF, RAISES, doc, observed=repr(ex), key=f"{HIF}:{RAISES}{sub}", replay=rp)
        return
    rep.check(True, HIF, RAISES, doc)
    if directed:
        return
    # what the file describes
    inc_sets = {}
    for inc in doc["incidences"]:
        inc_sets.setdefault(inc["edge"], set()).add(inc["node"])
    names = []
    for x in [inc["node"] for inc in doc["incidences"]] + [r["node"] for r in doc["nodes"]]:
        if x not in names:
            names.append(x)
    node_recs = {r["node"]: r for r in doc["nodes"]}
    edge_recs = {r["edge"]: r for r in doc["edges"] if r["edge"] in inc_sets}
    cl_s = "builds one hyperedge per described incidence set"
    try:
        hnodes = list(h.get_nodes())
        hedges = [tuple(e) for e in h.get_edges()]
        hmd = {n: h.get_node_metadata(n) for n in hnodes}
    except Exception as ex:
        rep.check(False, HIF, cl_s, doc, observed="getter raised " + repr(ex), key=f"{HIF}:{cl_s} (getters raise)", replay=rp)
        return
    hset = {frozenset(e) for e in hedges}
    if len(hnodes) != len(names) or len(hedges) != len(inc_sets) or len(hset) != len(hedges):
        rep.check(False, HIF, cl_s, doc, expected={"nodes": len(names), "hyperedges": len(inc_sets)},
                  observed={"nodes": hnodes, "hyperedges": hedges}, key=f"{HIF}:{cl_s}", replay=rp)
        return
    # bijection names -> nodes of the result: pinned by node records where possible, brute force for the rest
    pinned, used = {}, set()
    for nm, r in node_recs.items():
        c = [x for x in hnodes if x not in used and hmd[x] == r]
        if len(c) == 1:
            pinned[nm] = c[0]
            used.add(c[0])
    free_names = [nm for nm in names if nm not in pinned]
    free_nodes = [x for x in hnodes if x not in used]
    best = None
    for perm in itertools.permutations(free_nodes):
        f = dict(pinned)
        f.update(zip(free_names, perm))
        struct = {frozenset(f[x] for x in s) for s in inc_sets.values()} == hset
        n_ok = [nm for nm, r in node_recs.items() if hmd[f[nm]] == r]
        e_ok, i_ok = [], []
        if struct:
            for en, r in edge_recs.items():
                try:
                    if h.get_edge_metadata(tuple(sorted(f[x] for x in inc_sets[en]))) == r:
                        e_ok.append(en)
                except Exception:
                    pass
            for j, inc in enumerate(doc["incidences"]):
                try:
                    e = tuple(sorted(f[x] for x in inc_sets[inc["edge"]]))
                    if h.get_incidence_metadata(e, f[inc["node"]]) == inc:
                        i_ok.append(j)
                except Exception:
                    pass
        score = (struct, len(n_ok), len(e_ok), len(i_ok))
        if best is None or score > best[0]:
            best = (score, f, n_ok, e_ok, i_ok)
        if score == (True, len(node_recs), len(edge_recs), len(doc["incidences"])):
            break
    (struct, _, _, _), f, n_ok, e_ok, i_ok = best
    fshow = {repr(k): v for k, v in f.items()}
    rep.check(struct, HIF, cl_s, doc, expected=lambda: sorted(sorted(map(repr, s)) for s in inc_sets.values()),
              observed=lambda: {"hyperedges": hedges, "best node matching": fshow}, key=f"{HIF}:{cl_s}", replay=rp)
    cl = "node attribute records of the file are attached to the nodes"
    rep.check(len(n_ok) == len(node_recs), HIF, cl, doc, expected=lambda: [r for nm, r in node_recs.items() if nm not in n_ok],
              observed=lambda: {repr(nm): hmd[f[nm]] for nm in node_recs if nm not in n_ok}, key=f"{HIF}:{cl}", replay=rp)
    if not struct:
        return
    cl = "hyperedge attribute records of the file are attached to the hyperedges"
    rep.check(len(e_ok) == len(edge_recs), HIF, cl, doc, expected=lambda: [r for en, r in edge_recs.items() if en not in e_ok],
              observed=lambda: {"node matching": fshow, "edge metadata": {repr(e): h.get_edge_metadata(e) for e in hedges}},
              key=f"{HIF}:{cl}", replay=rp)
    cl = "incidence attribute records of the file are attached to the incidences"
    rep.check(len(i_ok) == len(doc["incidences"]), HIF, cl, doc,
              expected=lambda: [inc for j, inc in enumerate(doc["incidences"]) if j not in i_ok],
              observed=lambda: {"node matching": fshow, "incidence metadata": {repr(k): v for k, v in h.get_all_incidences_metadata().items()}},
              key=f"{HIF}:{cl}", replay=rp)


# ------------------------------------------------------------------------------------------------ driver
def plans(quick):
    if quick:
        return {"H": [(0, 0), (1, 1), (2, 3), (3, 4)], "D": [(2, 2), (3, 3)], "T": [(1, 2), (2, 3), (3, 3)],
                "M": [(1, 2), (2, 3), (3, 3)]}
    return {"H": [(0, 0), (1, 1), (2, 3), (3, 4), (4, 4)], "D": [(2, 2), (3, 4), (4, 2)],
            "T": [(1, 2), (2, 4), (3, 4), (4, 2)], "M": [(1, 2), (2, 4), (3, 4), (4, 2)]}


class Sink:
    """Stand-in for ctx inside a worker process; merged into the real ctx by the parent in task order."""

    def __init__(self):
        self.cases, self.clauses, self.counts, self.fails, self._seen = [], {}, {}, [], set()

    def case(self, desc, nontrivial=True):
        self.cases.append((desc, nontrivial))

    def count(self, name, n=1):
        self.counts[name] = self.counts.get(name, 0) + n

    def clause(self, name):
        self.clauses[name] = self.clauses.get(name, 0) + 1

    def fail(self, function, clause, input, expected=None, observed=None, key=None, replay=None):
        from hv.common import jsonable
        key = key or f"{function}:{clause}"
        if key not in self._seen:
            self._seen.add(key)
            self.fails.append((function, clause, jsonable(input), jsonable(expected), jsonable(observed), key, jsonable(replay)))

    def check(self, cond, function, clause, input, expected=None, observed=None, key=None, replay=None):
        self.clause(f"{function}:{clause}")
        if not cond:
            self.fail(function, clause, input, expected, observed, key, replay)
        return cond

    def merge_into(self, ctx, seen):
        for desc, nontrivial in self.cases:
            ctx.case(desc, nontrivial)
        for name, n in self.clauses.items():
            ctx.contract_evals[name] = ctx.contract_evals.get(name, 0) + n
        for name, n in self.counts.items():
            ctx.count(name, n)
        for function, clause, input, expected, observed, key, replay in self.fails:
            if key not in seen:  # ctx keeps at most 50 violations: one witness per kind of failure
                seen.add(key)
                ctx.fail(function, clause, input, expected, observed, key, replay)


def run_tasks(ctx, worker, tasks):
    """Runs worker(task) -> Sink for every task in forked processes; merges in task order (deterministic)."""
    import multiprocessing
    import hypergraphx  # noqa: F401  (imported before forking so that the workers share it)
    nproc = max(1, min(16, multiprocessing.cpu_count(), len(tasks)))
    seen = set()
    if nproc == 1 or os.environ.get("VERIF_SERIAL"):
        for t in tasks:
            worker(t).merge_into(ctx, seen)
        return
    with multiprocessing.get_context("fork").Pool(nproc) as pool:
        for sink in pool.imap(worker, tasks, chunksize=1):
            sink.merge_into(ctx, seen)


def _task_rng(seed, task):
    return random.Random("C06/%d/%r" % (seed, task))


N_PARTS = 2
N_HPARTS = 3
N_SPARTS = 4


def _worker(args):
    seed, quick, task = args
    sink = Sink()
    rep = Rep(sink)
    rng = _task_rng(seed, task)
    with tempfile.TemporaryDirectory(prefix="hv-c06-") as tmp:
        what = task[0]
        if what == "small":
            _, kind, weighted, labelkind, part = task
            for i, spec in enumerate(small_specs(kind, weighted, labelkind, plans(quick)[kind])):
                if i % N_PARTS == part:
                    _rt(sink, rep, spec, tmp)
        elif what == "random":
            _, kind, weighted, labelkind = task
            for j in range(200 if quick else 3000):
                spec = random_spec(rng, kind, weighted, labelkind)
                if j % 10 == 9:
                    spec["hmeta_replaced"] = True
                    if j % 20 == 19:
                        # user metadata that happens to use the constructor's key names, with a value contradicting the object
                        spec["hmeta"] = dict(spec["hmeta"], weighted=not weighted, type="user supplied")
                if j % 4 == 1:
                    spec["detour"] = True
                _rt(sink, rep, spec, tmp)
        elif what == "hist-small":
            _, kind, weighted, labelkind, part = task
            has_clear = hasattr(_cls(kind), "clear")
            for i, base in enumerate(small_specs(kind, weighted, labelkind, hist_plans(quick)[kind])):
                if i % N_HPARTS == part:
                    for spec in scripted_histories(base, i, labelkind, has_clear):
                        _hist(sink, rep, spec, tmp)
        elif what == "hist-random":
            _, kind, weighted, labelkind = task
            has_clear = hasattr(_cls(kind), "clear")
            for j in range(150 if quick else 2500):
                _hist(sink, rep, random_history(rng, kind, weighted, labelkind, has_clear), tmp)
        elif what == "second-small":
            _, kind, weighted, labelkind, part = task
            caps = edit_caps(kind)
            for i, base in enumerate(small_specs(kind, weighted, labelkind, second_plans(quick)[kind])):
                if i % N_SPARTS == part:
                    for spec in scripted_second(base, i, labelkind, caps):
                        _second(sink, rep, spec, tmp, FMT_PAIRS)
        elif what == "second-random":
            _, kind, weighted, labelkind = task
            has_clear, caps = hasattr(_cls(kind), "clear"), edit_caps(kind)
            for j in range(120 if quick else 2000):
                spec = random_second(rng, kind, weighted, labelkind, has_clear, caps)
                _second(sink, rep, spec, tmp, FMT_PAIRS[j % 2::2] if quick else FMT_PAIRS)
        elif what == "hgr":
            gen = hgr_files_exhaustive(4, lambda v: 3) if quick else hgr_files_exhaustive(5, lambda v: 4 if v <= 4 else 3)
            for i, (text, style, k) in enumerate(gen):
                if i % 4 == task[1]:
                    sink.case({"hgr": text}, nontrivial=k > 0)
                    hgr_case(rep, text, tmp, style)
        elif what == "hgr-random":
            for j in range(300 if quick else 4000):
                st = None if j % 25 else STYLE_HEADER_BLANKS
                text, style, k = hgr_file_random(rng, st)
                sink.case({"hgr": text}, nontrivial=k > 0)
                hgr_case(rep, text, tmp, style)
        elif what == "hif":
            for i, doc in enumerate(hif_docs_exhaustive(4, 3)):
                if i % 2 == task[1]:
                    sink.case({"hif": doc}, nontrivial=bool(doc["incidences"]))
                    hif_case(rep, doc, tmp)
        elif what == "hif-random":
            for j in range(400 if quick else 4000):
                doc = hif_doc_random(rng, j)
                sink.case({"hif": doc}, nontrivial=bool(doc["incidences"]))
                hif_case(rep, doc, tmp)
            for j in range(6 if quick else 12):
                doc = directed_hif_doc(j)
                sink.case({"hif": doc})
                hif_case(rep, doc, tmp)
    return sink


def run(ctx):
    quick = ctx.quick
    ctx.rule("round trip: one case = (object description, file format); objects enumerated over small universes with "
             "all record sets up to the stated size, then seeded random larger ones; non-trivial = the object has at "
             "least one node")
    ctx.rule("round trip after a history: one case = (list of construction / removal steps, file format); every single "
             "edit of each scripted kind on every small directly built object, then seeded random step sequences; "
             "non-trivial = the history contains a remove_node, remove_edge or clear step")
    ctx.rule("second generation: one case = (steps before the first save, edits of the loaded object, first format, "
             "second format); every single edit of each scripted kind on the object loaded from the file of every small "
             "directly built object, then seeded random step sequences; every case is non-trivial (at least one edit)")
    ctx.rule("hMETIS: one case = one generated file text; non-trivial = at least one hyperedge line")
    ctx.rule("HIF: one case = one generated document; non-trivial = at least one incidence")
    ctx.assume("json and pickle of the standard library are correct")
    ctx.assume("the public getters (get_nodes, get_edges, get_weight, get_edge_metadata, get_hypergraph_metadata, "
               "is_weighted) report the content of a container faithfully (C01-C04)")
    ctx.assume("histories: an object whose getters do not report the abstract content of its history (computed from the "
               "steps with plain dicts) is not saved at all; such cases are counted as skipped")
    ctx.assume("second generation: the edited loaded object is only judged when a never-saved twin that went through the "
               "same steps and edits reports the abstract content, and when the loaded object agreed with the saved "
               "content before the edits; other cases are counted as skipped")
    ctx.assume("weights are compared numerically (2 == 2.0), metadata with Python ==")
    configs = [(k, w, l) for k in "HDTM" for w in (False, True) for l in ("int", "str")]
    tasks = [("small",) + c + (p,) for c in configs for p in range(N_PARTS)]
    tasks += [("random",) + c for c in configs]
    tasks += [("hist-small",) + c + (p,) for c in configs for p in range(N_HPARTS)]
    tasks += [("hist-random",) + c for c in configs]
    tasks += [("second-small",) + c + (p,) for c in configs for p in range(N_SPARTS)]
    tasks += [("second-random",) + c for c in configs]
    tasks += [("hgr", p) for p in range(4)] + [("hgr-random",), ("hif", 0), ("hif", 1), ("hif-random",)]
    run_tasks(ctx, _worker, [(ctx.seed, quick, t) for t in tasks])
    ctx.exhaustive_parts.append(
        "all containers of each of the 4 types x {weighted, unweighted} x {int, str labels} over the universes / "
        "record counts %r (n, k) x {.json, .hgx}" % (plans(quick),))
    ctx.exhaustive_parts.append(
        "histories: every single edit of each scripted kind (remove_node without / with keep_edges, node re-insertion, "
        "remove_edge, hyperedge re-insertion, add-then-remove of a node with metadata alone / with a hyperedge, clear "
        "and refill, emptied by removals and refilled) on all directly built containers over %r (n, k) x 4 types x "
        "{weighted, unweighted} x {int, str labels} x {.json, .hgx}" % (hist_plans(quick),))
    ctx.exhaustive_parts.append(
        "second generation: every single edit of each scripted kind (set_weight, hyperedge / node metadata field set and "
        "deleted, hyperedge / node metadata replaced, hyperedge removed and re-inserted, hyperedge removed and a new one "
        "inserted, hyperedge removed before saving and re-inserted after loading, remove_node without / with keep_edges "
        "then a new hyperedge, new node joined by a new hyperedge, one / two new hyperedges, new isolated node, "
        "hypergraph metadata field, all in a row) on the objects loaded from the files of all directly built containers "
        "over %r (n, k) x 4 types x {weighted, unweighted} x {int, str labels} x all 4 pairs of formats"
        % (second_plans(quick),))
    ctx.exhaustive_parts.append("all .hgr files with <= %s distinct hyperedges over <= %d vertices x 4 header formats "
                                "(layout style rotating)" % (("3", 4) if quick else ("4 (3 for 5 vertices)", 5)))
    ctx.exhaustive_parts.append("all undirected HIF incidence structures with <= 3 edges of distinct non-empty "
                                "incidence sets over <= 4 nodes (record presence rotating)")


def _rt(ctx, rep, spec, tmp):
    for fmt in ("json", "hgx"):
        ctx.case(spec_desc(spec, fmt=fmt), nontrivial=bool(spec["nodes"]))
        status = roundtrip_case(rep, spec, fmt, tmp)
        if status != "done":
            ctx.count(f"round trip skipped or cut short: {status} [{KINDS[spec['kind']]}]")


def _hist(ctx, rep, spec, tmp):
    model = hist_model(spec)
    removing = any(op[0] in REMOVING for op in spec["ops"])
    for fmt in ("json", "hgx"):
        ctx.case(hist_desc(spec, model, fmt), nontrivial=removing)
        status = history_case(rep, spec, fmt, tmp, model)
        if status != "done":
            ctx.count(f"history round trip skipped or cut short: {status} [{KINDS[spec['kind']]}; {spec['script']}]")


def _second(ctx, rep, spec, tmp, pairs):
    models = second_models(spec)
    ref = second_twin(spec, models[1])
    for fmt1 in ("json", "hgx"):
        fmt2s = [b for a, b in pairs if a == fmt1]
        if not fmt2s:
            continue
        for fmt2 in fmt2s:
            ctx.case(second_desc(spec, models[1], fmt1, fmt2), nontrivial=True)
        status = second_case(rep, spec, fmt1, fmt2s, tmp, models, ref)
        if status != "done":
            ctx.count(f"second generation skipped: {status} [{KINDS[spec['kind']]}; {spec['script']}]", len(fmt2s))


def replay(data):
    rep = Rep()
    with tempfile.TemporaryDirectory(prefix="hv-c06-replay-") as tmp:
        if data["part"] == "roundtrip":
            status = roundtrip_case(rep, data["spec"], data["fmt"], tmp)
            if status not in ("done", "save raised", "load raised"):
                return True, f"case not executable on this tree: {status}"
        elif data["part"] == "history":
            status = history_case(rep, data["spec"], data["fmt"], tmp)
            if status not in ("done", "save raised", "load raised"):
                return True, f"case not executable on this tree: {status}"
        elif data["part"] == "second":
            status = second_case(rep, data["spec"], data["fmt"], data["fmt2"], tmp)
            if status != "done":
                return True, f"case not executable on this tree: {status}"
        elif data["part"] == "hgr":
            hgr_case(rep, data["text"], tmp, data.get("style", 0))
        elif data["part"] == "hif":
            hif_case(rep, data["doc"], tmp)
        else:
            return True, "unknown replay record"
    failed = sorted(set(rep.failed))
    key = data.get("key")
    if key is not None and key not in failed:
        return True, "the recorded clause holds on this input" + ("; other failed clauses: " + "; ".join(failed) if failed else "")
    if failed:
        return False, "failed clauses: " + "; ".join(failed)
    return True, "all clauses hold on this input"
