"""Adaptor of hypergraphx.Hypergraph for the history explorer: ghost = (set of nodes, map frozenset -> [weight, metadata],
map node -> metadata), written from the statement of C01."""
import copy
from .containers import Reject, Unspecified, UNKNOWN, msort, tuplify

FILTERS = [dict()] + [dict(order=o) for o in range(0, 4)] + [dict(size=s) for s in range(1, 5)]
UPTO = [dict(order=o, up_to=True) for o in range(0, 4)] + [dict(size=s, up_to=True) for s in range(1, 5)]


def fname(f):
    return ",".join(f"{k}={v}" for k, v in sorted(f.items()))


def sel(key_len, f):
    if "order" in f:
        o = f["order"]
    elif "size" in f:
        o = f["size"] - 1
    else:
        return True
    return key_len - 1 <= o if f.get("up_to") else key_len - 1 == o


class Ghost:
    def __init__(self, weighted):
        self.weighted = weighted
        self.V = set()
        self.E = {}       # frozenset -> [weight, metadata]
        self.NM = {}


class HypergraphAdaptor:
    name = "Hypergraph"

    def __init__(self, universe, probe_edges):
        self.universe = list(universe)
        self.probe_edges = [tuple(e) for e in probe_edges]   # hyperedges used for membership / weight probes

    # ---- construction
    def new_real(self, config):
        from hypergraphx import Hypergraph
        return Hypergraph(weighted=config["weighted"])

    def new_ghost(self, config):
        return Ghost(config["weighted"])

    def function_of(self, op):
        return f"Hypergraph.{op[0]}"

    def partial_key(self, op):
        """Known-finding key for batched operations that are applied partially before raising."""
        if op[0] in ("remove_edges", "remove_nodes", "add_nodes", "add_edges"):
            return f"Hypergraph.{op[0]}:batch-applied-partially-before-raising"
        return None

    # ---- ghost semantics (from the statement)
    def g_add_node(self, g, n, md=None):
        if n not in g.V:
            g.V.add(n)
            g.NM[n] = copy.deepcopy(md) if md is not None else {}
        elif md is not None and g.NM[n] != md:
            g.NM[n] = UNKNOWN if g.NM[n] != UNKNOWN else UNKNOWN   # statement silent on which metadata wins

    def g_add_edge(self, g, nodes, w=None, md=None):
        nodes = tuple(nodes)
        if len(set(nodes)) != len(nodes) or not nodes:
            raise Reject()
        if not g.weighted and w is not None and w != 1:
            raise Reject()
        k = frozenset(nodes)
        for n in nodes:
            self.g_add_node(g, n)
        if k not in g.E:
            g.E[k] = [(w if w is not None else 1) if g.weighted else 1, copy.deepcopy(md) if md is not None else {}]
        else:
            if g.weighted:
                g.E[k][0] += (w if w is not None else 1)
            g.E[k][1] = copy.deepcopy(md) if md is not None else UNKNOWN   # silent on metadata of a re-insert without metadata

    def g_remove_edge(self, g, nodes):
        k = frozenset(nodes)
        if k not in g.E:
            raise Reject()
        del g.E[k]

    def g_remove_node(self, g, n, keep):
        if n not in g.V:
            raise Reject()
        inc = [k for k in g.E if n in k]
        if keep:
            for k in inc:
                w, md = g.E[k]
                rest = k - {n}
                if rest:
                    if rest in g.E:
                        if g.weighted:
                            g.E[rest][0] += w
                        g.E[rest][1] = UNKNOWN
                    else:
                        g.E[rest] = [w, md]
        for k in inc:
            del g.E[k]
        g.V.discard(n)
        g.NM.pop(n, None)

    def apply_ghost(self, g, op):
        op = tuplify(op)
        name, a = op[0], op[1:]
        if name == "add_node":
            self.g_add_node(g, a[0], a[1] if len(a) > 1 else None)
        elif name == "add_nodes":
            mds = a[1] if len(a) > 1 else None
            for n in a[0]:
                if mds is not None and str(n) not in mds and n not in mds:
                    raise Reject()
            for n in a[0]:
                self.g_add_node(g, n, None if mds is None else mds.get(n, mds.get(str(n))))
        elif name == "add_edge":
            self.g_add_edge(g, *a)
        elif name == "add_edges":
            edges, ws, mds = a[0], (a[1] if len(a) > 1 else None), (a[2] if len(a) > 2 else None)
            if ws is not None:
                if not g.weighted:
                    ws = None      # "the weights will be ignored"
                elif len(set(tuple(e) for e in edges)) != len(edges) or len(ws) != len(edges):
                    raise Reject()
            for i, e in enumerate(edges):
                if len(set(e)) != len(e) or not e:
                    raise Reject()
            for i, e in enumerate(edges):
                self.g_add_edge(g, e, ws[i] if ws is not None else None, mds[i] if mds is not None else None)
        elif name == "remove_edge":
            self.g_remove_edge(g, a[0])
        elif name == "remove_edges":
            ks = [frozenset(e) for e in a[0]]
            if len(set(ks)) != len(ks) or any(k not in g.E for k in ks):
                raise Reject()
            for k in ks:
                del g.E[k]
        elif name == "remove_node":
            self.g_remove_node(g, a[0], a[1] if len(a) > 1 else False)
        elif name == "remove_nodes":
            ns = list(a[0])
            if len(set(ns)) != len(ns) or any(n not in g.V for n in ns):
                raise Reject()
            for n in ns:
                self.g_remove_node(g, n, a[1] if len(a) > 1 else False)
        elif name == "set_weight":
            k = frozenset(a[0])
            if k not in g.E or (not g.weighted and a[1] != 1):
                raise Reject()
            g.E[k][0] = a[1]
        elif name == "set_node_metadata":
            if a[0] not in g.V:
                raise Reject()
            g.NM[a[0]] = copy.deepcopy(a[1])
        elif name == "set_edge_metadata":
            k = frozenset(a[0])
            if k not in g.E:
                raise Reject()
            g.E[k][1] = copy.deepcopy(a[1])
        elif name == "set_attr_node":
            if a[0] not in g.V:
                raise Reject()
            if g.NM[a[0]] != UNKNOWN:
                g.NM[a[0]][a[1]] = a[2]
        elif name == "set_attr_edge":
            k = frozenset(a[0])
            if k not in g.E:
                raise Reject()
            if g.E[k][1] != UNKNOWN:
                g.E[k][1][a[1]] = a[2]
        elif name == "del_attr_node":
            if a[0] not in g.V:
                raise Reject()
            if g.NM[a[0]] == UNKNOWN:
                raise Unspecified()
            if a[1] not in g.NM[a[0]]:
                raise Reject()
            del g.NM[a[0]][a[1]]
        elif name == "del_attr_edge":
            k = frozenset(a[0])
            if k not in g.E:
                raise Reject()
            if g.E[k][1] == UNKNOWN:
                raise Unspecified()
            if a[1] not in g.E[k][1]:
                raise Reject()
            del g.E[k][1][a[1]]
        elif name == "clear":
            g.V.clear(), g.E.clear(), g.NM.clear()
        elif name == "copy":
            pass
        else:
            raise ValueError(name)

    # ---- the real thing, public API only
    def apply_real(self, h, op):
        op = tuplify(op)
        name, a = op[0], op[1:]
        md = lambda x: copy.deepcopy(x) if x is not None else None
        if name == "add_node":
            h.add_node(a[0], md(a[1]) if len(a) > 1 else None) if len(a) > 1 else h.add_node(a[0])
        elif name == "add_nodes":
            if len(a) > 1 and a[1] is not None:
                h.add_nodes(list(a[0]), {self._unstr(k, a[0]): md(v) for k, v in a[1].items()})
            else:
                h.add_nodes(list(a[0]))
        elif name == "add_edge":
            h.add_edge(tuple(a[0]), *( [a[1]] if len(a) > 1 else [] ), **({"metadata": md(a[2])} if len(a) > 2 else {}))
        elif name == "add_edges":
            kw = {}
            if len(a) > 1 and a[1] is not None:
                kw["weights"] = list(a[1])
            if len(a) > 2 and a[2] is not None:
                kw["metadata"] = [md(x) for x in a[2]]
            h.add_edges([tuple(e) for e in a[0]], **kw)
        elif name == "remove_edge":
            h.remove_edge(tuple(a[0]))
        elif name == "remove_edges":
            h.remove_edges([tuple(e) for e in a[0]])
        elif name == "remove_node":
            h.remove_node(a[0], keep_edges=a[1] if len(a) > 1 else False)
        elif name == "remove_nodes":
            h.remove_nodes(list(a[0]), keep_edges=a[1] if len(a) > 1 else False)
        elif name == "set_weight":
            h.set_weight(tuple(a[0]), a[1])
        elif name == "set_node_metadata":
            h.set_node_metadata(a[0], md(a[1]))
        elif name == "set_edge_metadata":
            h.set_edge_metadata(tuple(a[0]), md(a[1]))
        elif name == "set_attr_node":
            h.set_attr_to_node_metadata(a[0], a[1], a[2])
        elif name == "set_attr_edge":
            h.set_attr_to_edge_metadata(tuple(a[0]), a[1], a[2])
        elif name == "del_attr_node":
            h.remove_attr_from_node_metadata(a[0], a[1])
        elif name == "del_attr_edge":
            h.remove_attr_from_edge_metadata(tuple(a[0]), a[1])
        elif name == "clear":
            h.clear()
        elif name == "copy":
            return h.copy()
        else:
            raise ValueError(name)
        return None

    @staticmethod
    def _unstr(k, nodes):
        for n in nodes:
            if str(n) == k or n == k:
                return n
        return k

    # ---- observations
    def observe_ghost(self, g):
        o = {}
        V, E = g.V, g.E
        o["get_nodes()"] = msort(V)
        o["num_nodes()"] = len(V)
        o["is_weighted()"] = g.weighted
        o["get_nodes(metadata=True)"] = {repr(n): g.NM[n] for n in V}
        for n in self.universe:
            o[f"check_node({n!r})"] = n in V
            if n in V:
                o[f"get_node_metadata({n!r})"] = g.NM[n]
        for f in FILTERS + UPTO:
            ks = [k for k in E if sel(len(k), f)]
            o[f"get_edges({fname(f)})"] = msort(sorted(k) for k in ks)
            o[f"num_edges({fname(f)})"] = len(ks)
            o[f"get_weights({fname(f)})"] = msort(E[k][0] for k in ks)
            o[f"get_weights(asdict,{fname(f)})"] = {repr(sorted(k)): E[k][0] for k in ks}
        o["get_edges(metadata=True)"] = {repr(sorted(k)): E[k][1] for k in E}
        o["get_sizes()"] = msort(len(k) for k in E)
        o["get_orders()"] = msort(len(k) - 1 for k in E)
        o["distribution_sizes()"] = {str(s): sum(1 for k in E if len(k) == s) for s in {len(k) for k in E}}
        o["is_uniform()"] = len({len(k) for k in E}) <= 1
        if E:
            o["max_size()"] = max(len(k) for k in E)
            o["max_order()"] = max(len(k) for k in E) - 1
        for e in self.probe_edges:
            k = frozenset(e)
            o[f"check_edge({e!r})"] = k in E
            if k in E:
                o[f"get_weight({e!r})"] = E[k][0]
                o[f"get_edge_metadata({e!r})"] = E[k][1]
        for f in FILTERS:
            o[f"degree_sequence({fname(f)})"] = {repr(n): sum(1 for k in E if n in k and sel(len(k), f)) for n in V}
            dd = {}
            for n in V:
                d = sum(1 for k in E if n in k and sel(len(k), f))
                dd[str(d)] = dd.get(str(d), 0) + 1
            o[f"degree_distribution({fname(f)})"] = dd
            for n in V:
                inc = [k for k in E if n in k and sel(len(k), f)]
                o[f"get_incident_edges({n!r},{fname(f)})"] = msort(sorted(k) for k in inc)
                o[f"degree({n!r},{fname(f)})"] = len(inc)
                nb = set()
                for k in inc:
                    nb |= set(k)
                nb.discard(n)
                o[f"get_neighbors({n!r},{fname(f)})"] = msort(nb)
        return o

    def observe_real(self, h, g=None):
        o = {}

        def q(key, fn):
            try:
                o[key] = fn()
            except Exception as ex:     # noqa: BLE001
                o[key] = f"<raised {type(ex).__name__}>"

        q("get_nodes()", lambda: msort(h.get_nodes()))
        q("num_nodes()", lambda: h.num_nodes())
        q("is_weighted()", lambda: h.is_weighted())
        q("get_nodes(metadata=True)", lambda: {repr(n): m for n, m in h.get_nodes(metadata=True).items()})
        nodes = list(h.get_nodes())
        for n in self.universe:
            q(f"check_node({n!r})", lambda n=n: h.check_node(n))
            if n in nodes:
                q(f"get_node_metadata({n!r})", lambda n=n: h.get_node_metadata(n))
        for f in FILTERS + UPTO:
            q(f"get_edges({fname(f)})", lambda f=f: msort(sorted(e) for e in h.get_edges(**f)))
            q(f"num_edges({fname(f)})", lambda f=f: h.num_edges(**f))
            q(f"get_weights({fname(f)})", lambda f=f: msort(h.get_weights(**f)))
            q(f"get_weights(asdict,{fname(f)})", lambda f=f: {repr(sorted(k)): v for k, v in h.get_weights(asdict=True, **f).items()})
        q("get_edges(metadata=True)", lambda: {repr(sorted(k)): v for k, v in h.get_edges(metadata=True).items()})
        q("get_sizes()", lambda: msort(h.get_sizes()))
        q("get_orders()", lambda: msort(h.get_orders()))
        q("distribution_sizes()", lambda: {str(k): v for k, v in h.distribution_sizes().items()})
        q("is_uniform()", lambda: h.is_uniform())
        if h.num_edges() > 0:
            q("max_size()", lambda: h.max_size())
            q("max_order()", lambda: h.max_order())
        for e in self.probe_edges:
            q(f"check_edge({e!r})", lambda e=e: h.check_edge(e))
            try:
                present = h.check_edge(e)
            except Exception:   # noqa: BLE001
                present = False
            if present is True:
                q(f"get_weight({e!r})", lambda e=e: h.get_weight(e))
                q(f"get_edge_metadata({e!r})", lambda e=e: h.get_edge_metadata(e))
        for f in FILTERS:
            q(f"degree_sequence({fname(f)})", lambda f=f: {repr(n): d for n, d in h.degree_sequence(**f).items()})
            q(f"degree_distribution({fname(f)})", lambda f=f: {str(k): v for k, v in h.degree_distribution(**f).items()})
            for n in nodes:
                q(f"get_incident_edges({n!r},{fname(f)})", lambda n=n, f=f: msort(sorted(e) for e in h.get_incident_edges(n, **f)))
                q(f"degree({n!r},{fname(f)})", lambda n=n, f=f: h.degree(n, **f))
                q(f"get_neighbors({n!r},{fname(f)})", lambda n=n, f=f: msort(h.get_neighbors(n, **f)))
        return o
