"""C15 - Hy-MMSBM quantities equal their definitions; EM ascends, fixed inputs stay.   (bounded tier)

Scope
-----
(S) symbolic-real part, EXHAUSTIVE over the shapes N in 2..4 (quick) / 2..6 (thorough), K in {1,2} (thorough: also K=3
    for N <= 5), w full symmetric or diagonal, maximum size D in 2..N.  The REAL methods HyMMSBM.poisson_params, C, log_kappa
    (through exp), expected_degree (per node / averaged; d = "all", every single size, two arrays of sizes),
    degree_sequence(expected=True), dimension_sequence(expected=True) (both with and without dyadic sizes), the private
    constants _C_prime/_C_second (only if they still exist) and the _linear_ops helpers qf/bf/qf_and_sum/bf_and_sum are
    executed on numpy OBJECT arrays whose entries wrap sympy symbols (one symbol per entry of u, one per entry of the
    upper triangle of w).  The result is compared, as an expanded polynomial with coefficient tolerance 1e-9, with the
    definition of the statement evaluated by brute force: lambda_e = sum over the node pairs {i,j} of e of u_i^T w u_j;
    kappa(d) = (#node pairs of a hyperedge of size d) x (#hyperedges of size d containing a fixed pair) [the library's
    "binom+avg" normalisation, read from HyMMSBM.log_kappa / the docstring of C]; every expected statistic = sum over
    ALL subsets e of the node set with 2 <= |e| <= D (or |e| in the requested sizes) of lambda_e / kappa(|e|).
    Because the compared objects are polynomials, each agreement holds for ALL real parameter values (in particular all
    non-negative u and symmetric non-negative w) - but only for the enumerated shapes; arithmetic is taken as real.
    `x > 0` on a symbolic entry (used by dimension_sequence to drop empty sizes) is answered "true" iff x is a non-zero
    polynomial with positive coefficients, i.e. for generic (strictly positive) parameters.
(N) the same clauses on seeded random NUMERIC parameters (tolerance 1e-9 relative): N <= 7, K <= 3, D <= N, entries of u
    and w zero with probability ~1/4, incidence matrices passed as dense ndarray, scipy csr_array (what fit() builds) and
    the coo_array built by hypergraphx.linalg.hye_list_to_binary_incidence (what the sampler passes), including
    incidence matrices with a single column.
(K) node counts far beyond the brute-force range, N in {12, 24, 30, 40, 64, 150, 300, 640, 1000, 1030, 1100, 2000, 5000}: log_kappa
    (one array call over every size 2..N for N <= 640, else the boundary sizes, the middle of the range and a grid of ~120
    sizes; scalar calls for 2, 3, N/4, N/2, N/2+1, 3N/4, N-1, N) against log(C(d,2) C(N-2,d-2)) computed with EXACT big
    integers (math.comb, math.log of an int), relative tolerance 1e-9, result must be finite.  On the same N, for a model
    with equal rows of u (u_i^T w u_j = 1.125 for every pair, so every sum over all hyperedges is a count times a constant)
    the summands of C, dimension_sequence(expected=True), expected_degree per node and averaged (d = "all" / an array / one
    middle size) against the exact rational values C(N-2,d-2)/kappa, C(N,d) C(d,2) g/kappa, sum_d C(N-1,d-1) C(d,2) g/kappa.
(B) fit(): 7 small hypergraphs (4-6 nodes; weighted and unweighted; integer, shifted-integer and string labels; an
    isolated node; sizes up to 5) x seeds (3 quick / 10 thorough) x K in {2,3} x assortative in {True,False} x prior
    rates {0.0, 1.0} x max_hye_size in {None, largest size of the data, N};
    plus 3 hypergraphs with NON-INTEGER weights (0.5, 0.7, 1.5, 2.2, ...; one with all weights below 1; one with string
    labels and an isolated node; 5-6 nodes, sizes up to 5) x seeds (2 quick / 10 thorough) x K x assortative: u supplied
    with prior rate 0.0 (max_hye_size = data / N; dense and sparse u), 1.0 and an array of rates, and the other modes;
    plus prior rates given as ARRAYS, as the constructor allows: w_prior a symmetric strictly positive (K, K) ndarray
    (u supplied -> ascent clause on LL - sum_kq rate_kq (C w)_kq and all invariants, assortative and not; nothing supplied),
    u_prior a strictly positive (N, K) ndarray (w supplied / nothing supplied), on all 10 hypergraphs.  For an array of
    rates "supplied parameter unchanged" means: the model's attribute still holds equal values and the caller's array is
    untouched:
      * u supplied, w inferred, n_iter = 1..8 with the same seed (fresh model each time).  Clauses: supplied parameters
        (u, K, assortative, priors, max_hye_size when given) are bit-identical afterwards and the caller's array is
        untouched; u, w finite and >= -1e-12; w symmetric up to 1e-9 relative, exactly diagonal when assortative; the
        exact Poisson log-likelihood  sum_e [A_e log(lambda_e/kappa_e) - lambda_e/kappa_e - log A_e!]  over ALL subsets e
        with 2 <= |e| <= D (A_e = weight of e in the data, 0 if absent; D = max_hye_size if supplied else the largest
        size in the data) is non-decreasing in n_iter up to 1e-9 relative.
        With a prior rate r > 0 fit() performs MAP-EM; the plain likelihood then does decrease (measured: 47 of 540
        configurations) while the penalised objective is what EM ascends.  The clause is therefore evaluated on
        log-likelihood + log prior density, i.e. LL - r * sum_kq (C * w)_kq  (the code applies the exponential prior to
        the affinity before its final division by C); for r = 0 this IS the likelihood of the statement.  With r > 0 the
        ascent clause is only evaluated when max_hye_size is supplied (see "known limits").
      * w supplied / nothing supplied / both supplied, n_iter in {1,5}: the invariants above (no ascent claim in the
        statement for these).
    That fits with equal seed are prefixes of each other is not needed for the clause (the statement speaks about
    fit(n_iter=n) as a function of n) but is verified anyway: same seed and n_iter give bit-identical w, and the k-th
    value returned by the (private, only observed) _w_update of an 8-iteration run divided by C equals fit(n_iter=k)
    (integer-weight / scalar-rate configurations only).

(R) ONE model object used for several hypergraphs (the statement quantifies over every incidence matrix / hypergraph passed,
    not over "the first one a model object sees"), seeded random, numeric, tolerance as in (N):
      * reuse (150 quick / 1500 thorough sequences): two models with supplied u, w (N in 3..6/7, K <= 3, zeros as in (N)) are
        alive together; hyperedge lists A and B with the SAME number of nodes and hyperedges (B random / same sizes column by
        column / a column permutation of A / A with one column replaced; both orders A-B and B-A) and C (one hyperedge more
        or less), sizes 1..N.  16 steps per sequence - m1:A, m1:B, m2:B, m1:statistics, m1:A, m2:A, m1:C, m1:B, ... then 6
        seeded steps - each passing the list as dense ndarray / csr_array / coo_array / binary_incidence_matrix(Hypergraph)
        (one format for the whole sequence or a fresh one per step).  EVERY answer of poisson_params is compared with the
        sum over the node pairs for the matrix passed in that very call (for a matrix built by the library the hyperedges
        are read off the matrix, so no row / column order is assumed); "statistics" = expected_degree (per node, average;
        d = "all" and one size), degree_sequence / dimension_sequence (expected=True) against the sums over all subsets.
      * refit (90 quick / 900 thorough): one model (u supplied / w supplied / nothing supplied; K in {2,3}; assortative or
        not; prior rates; max_hye_size = N; weighted or not; int / shifted / string labels, isolated nodes) :
        fit(A, n_iter in 1..4), questions B, A, statistics, B, C, A, then fit(B) on the same object, questions A, B,
        statistics, (log_likelihood(A): history only, value not checked), B, A.  After each fit the clauses of fit()
        (supplied parameters bit-identical, shapes, finite, non-negative, symmetric / diagonal); every answer against the
        definition evaluated for the u, w the model holds at that moment (read through the attributes u, w) and for the
        hypergraph actually passed.  A second fit of an object whose w is already set infers nothing on this tree; the
        statement makes no claim about that, so only the clauses above are evaluated for it.
    This exposes results memoised per model object and validated by object identity / matrix shape only.

Oracle: plain Python / sympy brute force over all subsets, written from the statement; the implementation is observed
through its public methods (plus the two private constants and _linear_ops named in the property's anchors).

Known limits
------------
* Shapes of (S) are bounded; floating-point evaluation of the closed forms is only sampled (N).
* (K) uses K = 1 and equal rows of u (only then do the sums over all C(N,d) hyperedges have an exact closed form); sizes are
  passed as Python ints or int64 arrays only.  Arrays of prior rates are strictly positive (a zero rate inside an array
  makes the library's initial draw infinite; the statement does not cover that).
* Rows of u are matched to nodes through Hypergraph.get_mapping() (public), as fit() does.
* (R) samples call sequences of length <= 16 on at most two live objects; state that only goes stale after longer
  histories, after the caller mutates / reassigns u or w by hand, or across processes is not exercised.  The ascent clause
  cannot be evaluated on a reused object (w is no longer inferred once it is set), it stays with fresh objects in (B).
* fit() on this tree infers max_hye_size = 2 for every hypergraph when it is not supplied (it iterates over
  (edge, id) pairs).  The statement has no clause about the inferred maximum size, so nothing is checked there; the
  ascent clause with a prior is skipped for max_hye_size=None because the objective's scale depends on that value.
* Supplied u in (B) are strictly positive, or have zeros only where every observed hyperedge keeps a positive Poisson
  parameter (otherwise the data has probability zero and EM divides by zero) and, when the prior rate is 0, where every
  affinity entry is determined (two distinct nodes populate the two communities); otherwise the M-step is 0/0 and fit
  returns NaN - treated as inadmissible input, not as a violation of "finite".
"""
import itertools
import math
import warnings

PROPERTY = "C15"

TOL = 1e-9
RAISES = "does not raise on admissible input"


# --------------------------------------------------------------------------------------------------------------
# imports of the code under test (lazily, after common.use_repo())
# --------------------------------------------------------------------------------------------------------------
def _imports():
    warnings.filterwarnings("ignore", category=SyntaxWarning)
    import numpy as np
    import sympy as sp
    from scipy import sparse
    from hypergraphx import Hypergraph
    from hypergraphx.communities.hy_mmsbm.model import HyMMSBM
    from hypergraphx.communities.hy_mmsbm import _linear_ops
    from hypergraphx.linalg.linalg import hye_list_to_binary_incidence
    return np, sp, sparse, Hypergraph, HyMMSBM, _linear_ops, hye_list_to_binary_incidence


class _Collector:
    """Stand-in for Ctx used by replay(): records failures only."""

    def __init__(self):
        self.failures = []
        self.tier, self.quick, self.seed = "quick", True, 0
        self.exhaustive_parts = []

    def case(self, *a, **k):
        pass

    def count(self, *a, **k):
        pass

    def rule(self, *a, **k):
        pass

    def assume(self, *a, **k):
        pass

    def clause(self, *a, **k):
        pass

    def fail(self, function, clause, input, expected=None, observed=None, key=None, replay=None):
        self.failures.append((key or f"{function}:{clause}", input, expected, observed))

    def check(self, cond, function, clause, input, expected=None, observed=None, key=None, replay=None):
        if not cond:
            self.fail(function, clause, input, expected, observed, key, replay)
        return cond


class _Dedup:
    """Forwards to the real Ctx but records at most two failures per key (Ctx keeps only the first 50 failures in total,
    so a frequent key must not crowd out a rare one); every evaluation is still counted."""

    def __init__(self, ctx):
        self._ctx = ctx
        self._seen = {}

    def __getattr__(self, name):
        return getattr(self._ctx, name)

    def check(self, cond, function, clause, input, expected=None, observed=None, key=None, replay=None):
        self._ctx.clause(f"{function}:{clause}")
        if not cond:
            self.fail(function, clause, input, expected, observed, key, replay)
        return cond

    def fail(self, function, clause, input, expected=None, observed=None, key=None, replay=None):
        key = key or f"{function}:{clause}"
        n = self._seen.get(key, 0)
        self._seen[key] = n + 1
        if n < 2:
            if isinstance(replay, dict):
                replay = dict(replay, key=key)
            self._ctx.fail(function, clause, input, expected, observed, key, replay)
        else:
            self._ctx.count("further failures of " + key)


def _exc(e):
    return f"{type(e).__name__}: {str(e)[:200]}"


def _raise_key(function, e):
    return f"{function}:{RAISES}[{type(e).__name__}]"


# --------------------------------------------------------------------------------------------------------------
# (S) symbolic carrier
# --------------------------------------------------------------------------------------------------------------
def _make_sx(np, sp):
    class Sx:
        """A real number given as a sympy expression in the parameter symbols; lives in numpy object arrays."""
        __slots__ = ("e",)
        __hash__ = None

        def __init__(self, e):
            self.e = e

        @staticmethod
        def _v(o):
            if isinstance(o, Sx):
                return o.e
            if isinstance(o, np.generic):
                o = o.item()
            if isinstance(o, (int, float)) and not isinstance(o, bool):
                return sp.Integer(o) if isinstance(o, int) else sp.Float(o, 17)
            return None

        def _bin(self, o, f):
            v = Sx._v(o)
            if v is None:
                return NotImplemented
            return Sx(f(self.e, v))

        def __add__(self, o):
            return self._bin(o, lambda a, b: a + b)

        __radd__ = __add__

        def __sub__(self, o):
            return self._bin(o, lambda a, b: a - b)

        def __rsub__(self, o):
            return self._bin(o, lambda a, b: b - a)

        def __mul__(self, o):
            return self._bin(o, lambda a, b: a * b)

        __rmul__ = __mul__

        def __truediv__(self, o):
            return self._bin(o, lambda a, b: a / b)

        def __rtruediv__(self, o):
            return self._bin(o, lambda a, b: b / a)

        def __neg__(self):
            return Sx(-self.e)

        def __pos__(self):
            return self

        def _sign(self, o):
            v = Sx._v(o)
            if v is None:
                raise TypeError("comparison of a symbolic entry with %r" % (o,))
            p = sp.expand(self.e - v)
            if p == 0:
                return 0
            cs = [float(c) for c in p.as_coefficients_dict().values()]
            if all(abs(c) <= 1e-12 for c in cs):
                return 0
            if all(c > 0 for c in cs):
                return 1
            if all(c < 0 for c in cs):
                return -1
            raise TypeError("sign of a symbolic entry is not determined for all non-negative parameters")

        def __gt__(self, o):
            return self._sign(o) > 0

        def __lt__(self, o):
            return self._sign(o) < 0

        def __ge__(self, o):
            return self._sign(o) >= 0

        def __le__(self, o):
            return self._sign(o) <= 0

        def __eq__(self, o):
            v = Sx._v(o)
            if v is None:
                return NotImplemented
            return sp.expand(self.e - v) == 0

        def __ne__(self, o):
            r = self.__eq__(o)
            return r if r is NotImplemented else not r

        def __repr__(self):
            return f"Sx({self.e})"

    return Sx


def _poly_close(sp, observed, expected):
    """|coefficients of expand(observed - expected)| <= TOL * max(1, max |coefficient of expected|)."""
    ex = sp.expand(expected)
    scale = max([1.0] + [abs(float(c)) for c in ex.as_coefficients_dict().values()])
    d = sp.expand(observed - ex)
    if d == 0:
        return True, 0.0
    worst = max(abs(complex(c)) for c in d.as_coefficients_dict().values())
    return worst <= TOL * scale, worst


def _subsets(N, dmin=2, dmax=None):
    dmax = N if dmax is None else dmax
    return [e for d in range(dmin, dmax + 1) for e in itertools.combinations(range(N), d)]


def _kappa_def(N, d):
    """(#pairs in a hyperedge of size d) x (#hyperedges of size d on N nodes containing the fixed pair {0,1})."""
    pairs = sum(1 for _ in itertools.combinations(range(d), 2))
    containing = sum(1 for e in itertools.combinations(range(N), d) if 0 in e and 1 in e)
    return pairs * containing


def _sizes_variants(np, D):
    """[(json description, argument for d, set of sizes meant)]"""
    out = [("all", "all", set(range(2, D + 1)))]
    for d in range(2, D + 1):
        out.append((d, d, {d}))
    if D >= 3:
        out.append((list(range(3, D + 1)), np.arange(3, D + 1), set(range(3, D + 1))))
        out.append(([2, D], np.array([2, D]), {2, D}))
    return out


class _Algebra:
    """The two carriers share every check: 'sym' compares polynomials, 'num' compares floats."""

    def __init__(self, kind, np, sp, scale=0.0):
        self.kind, self.np, self.sp = kind, np, sp
        self.scale = scale  # numeric carrier: magnitude of the operands (largest |u_i^T w u_j|), rounding is relative to it

    def unwrap(self, x):
        if self.kind == "sym":
            if hasattr(x, "e"):
                return x.e
            if isinstance(x, self.np.generic):
                x = x.item()
            return self.sp.sympify(x)
        return float(x)

    def close(self, observed, expected, scale=None):
        try:
            o = self.unwrap(observed)
        except Exception:
            return False, "not a number: %r" % (observed,)
        if self.kind == "sym":
            return _poly_close(self.sp, o, expected)
        if not math.isfinite(o):
            return False, o
        s = max(abs(expected), scale or 0.0, self.scale)
        return abs(o - expected) <= TOL * s + 1e-300, abs(o - expected)

    def show(self, x):
        try:
            x = self.unwrap(x)
        except Exception:
            return repr(x)
        return str(self.sp.expand(x))[:300] if self.kind == "sym" else x


def _check_model_quantities(ctx, alg, HyMMSBM, lin, mk_incidences, u_arr, w_arr, G, N, K, D, desc):
    """All closed-form clauses for one model.  G[i][j] = u_i^T w u_j from the definition (exact / float)."""
    np = alg.np
    zero = 0 if alg.kind == "num" else alg.sp.Integer(0)
    rp = dict(part="quantities", **desc)

    def lam(e):
        s = zero
        for i, j in itertools.combinations(e, 2):
            s = s + G[i][j]
        return s

    def guarded(function, thunk, inp):
        try:
            return True, thunk()
        except Exception as e:
            ctx.check(False, function, RAISES, dict(inp, error=_exc(e)), key=_raise_key(function, e), replay=rp)
            return False, None

    ok, m = guarded("HyMMSBM.__init__", lambda: HyMMSBM(u=u_arr, w=w_arr, max_hye_size=D), desc)
    if not ok:
        return
    every = _subsets(N)
    lam_all = {e: lam(e) for e in every}
    lam_scale = None
    if alg.kind == "num":
        lam_scale = max([abs(v) for v in lam_all.values()] + [1e-300])
    rat = (lambda a, b: a / b) if alg.kind == "num" else (lambda a, b: alg.sp.Rational(a, b))
    kap = {d: _kappa_def(N, d) for d in range(2, N + 1)}

    # ---- Poisson parameter of every hyperedge (all subsets of size 2..N, independent of D)
    for fmt, B, edges in mk_incidences(every, N):
        inp = dict(desc, incidence=fmt, hyperedges=len(edges))
        ok, lams = guarded("HyMMSBM.poisson_params", lambda: m.poisson_params(B), inp)
        if not ok:
            continue
        good, bad = True, None
        if getattr(lams, "shape", None) != (len(edges),):
            good, bad = False, ("shape", getattr(lams, "shape", None))
        else:
            for j, e in enumerate(edges):
                c, dev = alg.close(lams[j], lam_all[e], lam_scale)
                if not c:
                    good, bad = False, dict(hyperedge=e, expected=alg.show(lam_all[e]), observed=alg.show(lams[j]),
                                            deviation=dev)
                    break
        ctx.check(good, "HyMMSBM.poisson_params", "equals the sum over the node pairs of u_i^T w u_j", inp,
                  observed=bad, replay=rp)

    # ---- kappa and C
    for d in range(2, D + 1):
        for form, arg in (("int", d), ("array", np.array([d, d]))):
            inp = dict(N=N, d=d, argument=form)
            ok, lk = guarded("HyMMSBM.log_kappa", lambda: m.log_kappa(arg), inp)
            if not ok:
                continue
            vals = np.atleast_1d(np.exp(np.asarray(lk, dtype=float)))
            ctx.check(all(abs(v - kap[d]) <= TOL * kap[d] for v in vals) and len(vals) == (1 if form == "int" else 2),
                      "HyMMSBM.log_kappa", "exp = (#pairs in a hyperedge) x (#hyperedges of that size containing a fixed pair)",
                      inp, expected=kap[d], observed=[float(v) for v in vals], replay=rp)
    for dd, arg, sizes in _sizes_variants(np, D):
        inp = dict(N=N, D=D, d=dd)
        expected = sum(1.0 / kap[len(e)] for e in every if len(e) in sizes and 0 in e and 1 in e)
        ok, c = guarded("HyMMSBM.C", lambda: m.C(arg), inp)
        if ok:
            ctx.check(abs(float(c) - expected) <= TOL * max(1.0, expected), "HyMMSBM.C",
                      "equals the sum over the hyperedges containing a fixed pair of 1/kappa", inp, expected=expected,
                      observed=float(c), replay=rp)
        if not isinstance(arg, int):
            ok, cs = guarded("HyMMSBM.C", lambda: m.C(arg, return_summands=True), dict(inp, return_summands=True))
            if ok:
                order = sorted(sizes) if dd == "all" else [int(x) for x in arg]
                exp_s = [sum(1.0 / kap[len(e)] for e in every if len(e) == s and 0 in e and 1 in e) for s in order]
                obs = [float(x) for x in np.atleast_1d(cs)]
                ctx.check(len(obs) == len(exp_s) and all(abs(a - b) <= TOL * max(1.0, b) for a, b in zip(obs, exp_s)),
                          "HyMMSBM.C", "summands: per size, (#hyperedges of that size containing a fixed pair)/kappa",
                          dict(inp, return_summands=True), expected=exp_s, observed=obs, replay=rp)
        # private constants named in the anchors (skipped if refactored away)
        if hasattr(m, "_C_prime") and N >= 3:
            expected = sum(1.0 / kap[len(e)] for e in every if len(e) in sizes and {0, 1, 2} <= set(e))
            ok, c = guarded("HyMMSBM._C_prime", lambda: m._C_prime(arg), inp)
            if ok:
                ctx.check(abs(float(c) - expected) <= TOL * max(1.0, expected), "HyMMSBM._C_prime",
                          "equals the sum over the hyperedges containing a fixed triple of 1/kappa", inp,
                          expected=expected, observed=float(c), replay=rp)
        if hasattr(m, "_C_second"):
            expected = sum(len(e) / kap[len(e)] for e in every if len(e) in sizes and 0 in e and 1 in e) / N
            ok, c = guarded("HyMMSBM._C_second", lambda: m._C_second(arg), inp)
            if ok:
                ctx.check(abs(float(c) - expected) <= TOL * max(1.0, expected), "HyMMSBM._C_second",
                          "equals (1/N) x the sum over the hyperedges containing a fixed pair of size/kappa", inp,
                          expected=expected, observed=float(c), replay=rp)

    # ---- expected degrees
    def deg_def(i, sizes):
        s = zero
        for e in every:
            if len(e) in sizes and i in e:
                s = s + lam_all[e] * rat(1, kap[len(e)])
        return s

    def cmp_vector(function, clause, inp, observed, expected):
        good, bad = True, None
        if getattr(observed, "shape", None) != (len(expected),):
            good, bad = False, ("shape", getattr(observed, "shape", None))
        else:
            sc = max([abs(x) for x in expected] + [1e-300]) if alg.kind == "num" else None
            for i, x in enumerate(expected):
                c, dev = alg.close(observed[i], x, sc)
                if not c:
                    good, bad = False, dict(index=i, expected=alg.show(x), observed=alg.show(observed[i]), deviation=dev)
                    break
        ctx.check(good, function, clause, inp, observed=bad, replay=rp)

    for dd, arg, sizes in _sizes_variants(np, D):
        inp = dict(desc, d=dd)
        per_node = [deg_def(i, sizes) for i in range(N)]
        ok, obs = guarded("HyMMSBM.expected_degree", lambda: m.expected_degree(per_node=True, d=arg),
                          dict(inp, per_node=True))
        if ok:
            cmp_vector("HyMMSBM.expected_degree",
                       "per node: sum over the hyperedges containing the node of lambda/kappa", dict(inp, per_node=True),
                       obs, per_node)
        ok, obs = guarded("HyMMSBM.expected_degree", lambda: m.expected_degree(per_node=False, d=arg),
                          dict(inp, per_node=False))
        if ok:
            avg = zero
            for x in per_node:
                avg = avg + x
            avg = avg * rat(1, N)
            c, dev = alg.close(obs, avg)
            ctx.check(c, "HyMMSBM.expected_degree", "average: mean over the nodes of the per-node expected degree",
                      dict(inp, per_node=False), expected=alg.show(avg), observed=alg.show(obs), replay=rp)

    for dyadic in (True, False):
        sizes = set(range(2 if dyadic else 3, D + 1))
        inp = dict(desc, include_dyadic=dyadic, expected=True)
        ok, obs = guarded("HyMMSBM.degree_sequence",
                          lambda: m.degree_sequence(include_dyadic=dyadic, expected=True), inp)
        if ok:
            cmp_vector("HyMMSBM.degree_sequence",
                       "expected: per node, sum over the hyperedges (of the included sizes) containing it of lambda/kappa",
                       inp, obs, [deg_def(i, sizes) for i in range(N)])
        ok, obs = guarded("HyMMSBM.dimension_sequence",
                          lambda: m.dimension_sequence(include_dyadic=dyadic, expected=True), inp)
        if ok:
            good, bad = isinstance(obs, dict), None
            if good:
                got = {int(k): v for k, v in obs.items()}
                if not set(got) <= sizes:
                    good, bad = False, dict(sizes_reported=sorted(got), sizes_allowed=sorted(sizes))
                for d in sorted(sizes):
                    if not good:
                        break
                    s = zero
                    for e in every:
                        if len(e) == d:
                            s = s + lam_all[e] * rat(1, kap[d])
                    c, dev = alg.close(got.get(d, 0), s, lam_scale)
                    if not c:
                        good, bad = False, dict(size=d, expected=alg.show(s), observed=alg.show(got.get(d, 0)),
                                                deviation=dev)
            else:
                bad = repr(obs)[:200]
            ctx.check(good, "HyMMSBM.dimension_sequence",
                      "expected: per size, sum over the hyperedges of that size of lambda/kappa", inp, observed=bad,
                      replay=rp)

    # ---- the linear-algebra shortcuts (anchors: _linear_ops.py)
    if lin is not None:
        inp = dict(desc)
        ok, obs = guarded("_linear_ops.qf", lambda: lin.qf(u_arr, w_arr), inp)
        if ok:
            cmp_vector("_linear_ops.qf", "entry i = u_i^T w u_i", inp, obs, [G[i][i] for i in range(N)])
        ok, obs = guarded("_linear_ops.bf", lambda: lin.bf(u_arr, u_arr, w_arr), inp)
        if ok:
            flat = obs.reshape(-1) if getattr(obs, "shape", None) == (N, N) else obs
            cmp_vector("_linear_ops.bf", "entry (i,j) = u_i^T w u_j", inp, flat,
                       [G[i][j] for i in range(N) for j in range(N)])
        ok, obs = guarded("_linear_ops.qf_and_sum", lambda: lin.qf_and_sum(u_arr, w_arr), inp)
        if ok:
            s = zero
            for i in range(N):
                s = s + G[i][i]
            c, dev = alg.close(obs, s)
            ctx.check(c, "_linear_ops.qf_and_sum", "= sum_i u_i^T w u_i", inp, expected=alg.show(s),
                      observed=alg.show(obs), replay=rp)
        ok, obs = guarded("_linear_ops.bf_and_sum", lambda: lin.bf_and_sum(u_arr, w_arr), inp)
        if ok:
            s = zero
            for i, j in itertools.combinations(range(N), 2):
                s = s + G[i][j]
            c, dev = alg.close(obs, s, lam_scale)
            ctx.check(c, "_linear_ops.bf_and_sum", "= sum_{i<j} u_i^T w u_j", inp, expected=alg.show(s),
                      observed=alg.show(obs), replay=rp)


def _dense_incidences(np):
    def mk(edges, N):
        out = []
        for tag, es in (("dense", edges), ("dense, one column", edges[-1:])):
            B = np.zeros((N, len(es)), dtype=int)
            for j, e in enumerate(es):
                for i in e:
                    B[i, j] = 1
            out.append((tag, B, es))
        return out
    return mk


def _numeric_incidences(np, sparse, to_coo):
    dense = _dense_incidences(np)

    def mk(edges, N):
        out = dense(edges, N)
        for tag, B, es in list(out):
            out.append((tag.replace("dense", "scipy csr_array"), sparse.csr_array(B), es))
            out.append((tag.replace("dense", "coo_array from hye_list_to_binary_incidence"),
                        to_coo([tuple(e) for e in es], shape=(N, len(es))), es))
        return out
    return mk


def _run_symbolic(ctx, desc):
    np, sp, sparse, Hypergraph, HyMMSBM, lin, to_coo = _imports()
    N, K, diag, D = desc["N"], desc["K"], desc["w"] == "diagonal", desc["D"]
    Sx = _make_sx(np, sp)
    U = [[sp.Symbol(f"u{i}_{k}") for k in range(K)] for i in range(N)]
    W = [[sp.Integer(0)] * K for _ in range(K)]
    for k in range(K):
        for q in range(k, K):
            if diag and k != q:
                continue
            W[k][q] = W[q][k] = sp.Symbol(f"w{k}_{q}")
    u_arr = np.empty((N, K), dtype=object)
    w_arr = np.zeros((K, K), dtype=object)
    for i in range(N):
        for k in range(K):
            u_arr[i, k] = Sx(U[i][k])
    for k in range(K):
        for q in range(K):
            if W[k][q] != 0:
                w_arr[k, q] = Sx(W[k][q])
    G = [[sp.expand(sum(U[i][k] * W[k][q] * U[j][q] for k in range(K) for q in range(K))) for j in range(N)]
         for i in range(N)]
    alg = _Algebra("sym", np, sp)
    _check_model_quantities(ctx, alg, HyMMSBM, lin, _dense_incidences(np), u_arr, w_arr, G, N, K, D,
                            dict(desc, carrier="symbolic"))


def _numeric_params(np, desc):
    rng = np.random.default_rng([desc["pseed"], 15])
    N, K = desc["N"], desc["K"]
    u = rng.random((N, K)) * desc["scale"]
    u[rng.random((N, K)) < 0.25] = 0.0
    w = rng.random((K, K)) * 2
    w[rng.random((K, K)) < 0.25] = 0.0
    w = np.triu(w) + np.triu(w, 1).T
    if desc["w"] == "diagonal":
        w = np.diag(np.diag(w))
    return u, w


def _run_numeric(ctx, desc):
    np, sp, sparse, Hypergraph, HyMMSBM, lin, to_coo = _imports()
    N, K, D = desc["N"], desc["K"], desc["D"]
    u, w = _numeric_params(np, desc)
    G = [[sum(float(u[i, k]) * float(w[k, q]) * float(u[j, q]) for k in range(K) for q in range(K)) for j in range(N)]
         for i in range(N)]
    alg = _Algebra("num", np, sp, scale=max(abs(x) for row in G for x in row))
    _check_model_quantities(ctx, alg, HyMMSBM, lin, _numeric_incidences(np, sparse, to_coo), u.copy(), w.copy(), G,
                            N, K, D, dict(desc, carrier="numeric"))


LARGE_N = (12, 24, 30, 40, 64, 150, 300, 640, 1000, 1030, 1100, 2000, 5000)


def _large_sizes(N):
    """Every size for N <= 640; beyond that the boundary sizes, the middle of the range and a regular grid of ~120 sizes."""
    if N <= 640:
        return list(range(2, N + 1))
    ds = {2, 3, 4, 5, N // 8, N // 4, N // 3, N // 2 - 1, N // 2, N // 2 + 1, (2 * N) // 3, (3 * N) // 4, N - 2, N - 1, N}
    ds.update(range(2, N + 1, max(1, N // 120)))
    return sorted(ds)


def _run_large_kappa(ctx):
    """The normalisation (and the closed forms built on it) for node counts beyond the brute-force range.  Oracle: EXACT
    integer / rational arithmetic (math.comb, math.log of arbitrarily large ints, fractions.Fraction).
      * log kappa(d) against the closed form of its counting definition, C(d,2) * C(N-2,d-2) (the closed form itself is
        validated by enumeration for N <= 6), for every N of LARGE_N and the sizes of _large_sizes(N): one array call, and
        scalar calls for a spread of sizes;
      * on a model whose rows of u are all equal (u_ik = 1.5, K = 1, w = 0.5, so u_i^T w u_j = g = 1.125 for every pair and every
        hyperedge of size d has lambda = C(d,2) g) the sums over ALL hyperedges have exact closed forms by counting:
        C summand(d) = C(N-2,d-2)/kappa(d); expected number of hyperedges of size d = C(N,d) C(d,2) g / kappa(d); expected
        degree of a node = sum_d C(N-1,d-1) C(d,2) g / kappa(d); average degree = the same (all nodes alike)."""
    import functools
    import math
    from fractions import Fraction
    np, sp, sparse, Hypergraph, HyMMSBM, lin, to_coo = _imports()
    fn = "HyMMSBM.log_kappa"
    comb = functools.lru_cache(maxsize=None)(math.comb)
    uval, wval = 1.5, 0.5
    g = Fraction(9, 8)        # 1.5 * 0.5 * 1.5, exact in binary floating point

    def close(a, b):
        return math.isfinite(a) and abs(a - b) <= TOL * max(1.0, abs(b))

    for N in LARGE_N:
        inp = dict(N=N, K=1, part="kappa for large N")
        rp = dict(part="K", N=N)
        sizes = _large_sizes(N)
        pick = sorted({2, 3, N // 4, N // 2, N // 2 + 1, (3 * N) // 4, N - 1, N} & set(sizes))
        try:
            m = HyMMSBM(u=np.full((N, 1), uval), w=np.full((1, 1), wval), max_hye_size=N)
            arr = np.asarray(m.log_kappa(np.array(sizes)), dtype=float)
            scal = [float(m.log_kappa(int(d))) for d in pick]
        except Exception as e:      # noqa: BLE001
            ctx.check(False, fn, RAISES, dict(inp, error=_exc(e)), key=_raise_key(fn, e), replay=rp)
            continue
        kap = {d: comb(d, 2) * comb(N - 2, d - 2) for d in sizes}
        exp = {d: math.log(kap[d]) for d in sizes}
        bad = []
        if arr.shape != (len(sizes),):
            bad.append(("shape", list(arr.shape)))
        else:
            bad += [int(d) for d, a in zip(sizes, arr) if not close(float(a), exp[d])]
        bad += [int(d) for d, a in zip(pick, scal) if not close(a, exp[d])]
        ctx.check(not bad, fn, "kappa equals its counting definition (pairs in a hyperedge x hyperedges containing a fixed pair)", inp,
                  expected="log(C(d,2) C(N-2,d-2)) in exact integer arithmetic, relative 1e-9",
                  observed=dict(sizes_off=bad[:8], number_off=len(bad)), replay=rp)
        ctx.case(inp)

        # ---- the closed forms that rest on kappa, same N, against exact counting
        darr = np.array(sizes)
        try:
            cs = [float(x) for x in np.atleast_1d(m.C(darr, return_summands=True))]
            exp_c = [float(Fraction(comb(N - 2, d - 2), kap[d])) for d in sizes]
            ctx.check(len(cs) == len(exp_c) and all(close(a, b) for a, b in zip(cs, exp_c)), "HyMMSBM.C",
                      "summands: per size, (#hyperedges of that size containing a fixed pair)/kappa", dict(inp, return_summands=True),
                      observed=[(d, a, b) for d, a, b in zip(sizes, cs, exp_c) if not close(a, b)][:4], replay=rp)
        except Exception as e:      # noqa: BLE001
            ctx.check(False, "HyMMSBM.C", RAISES, dict(inp, error=_exc(e)), key=_raise_key("HyMMSBM.C", e), replay=rp)
        try:
            obs = m.dimension_sequence(include_dyadic=True, expected=True)
            got = {int(k): float(v) for k, v in obs.items()}
            off = []
            for d in sizes:
                want = float(Fraction(comb(N, d) * comb(d, 2), kap[d]) * g)
                if not (d in got and close(got[d], want)):
                    off.append((d, got.get(d), want))
            ctx.check(not off and set(got) <= set(range(2, N + 1)), "HyMMSBM.dimension_sequence",
                      "expected: per size, sum over the hyperedges of that size of lambda/kappa", dict(inp, include_dyadic=True, expected=True),
                      observed=off[:4], replay=rp)
        except Exception as e:      # noqa: BLE001
            ctx.check(False, "HyMMSBM.dimension_sequence", RAISES, dict(inp, error=_exc(e)),
                      key=_raise_key("HyMMSBM.dimension_sequence", e), replay=rp)
        whole = ("all", "all", sizes) if len(sizes) == N - 1 else ("grid of %d sizes" % len(sizes), darr, sizes)
        for dd, arg, ds in (whole, (pick, np.array(pick), pick), (N // 2, N // 2, [N // 2])):
            want = float(sum(Fraction(comb(N - 1, d - 1) * comb(d, 2), kap[d]) for d in ds) * g)
            try:
                per = np.asarray(m.expected_degree(per_node=True, d=arg), dtype=float)
                ctx.check(per.shape == (N,) and all(close(float(x), want) for x in (per[0], per[N // 2], per[-1], per.min(), per.max())),
                          "HyMMSBM.expected_degree", "per node: sum over the hyperedges containing the node of lambda/kappa",
                          dict(inp, d=dd, per_node=True), expected=want, observed=[float(per.min()), float(per.max())] if per.size else None,
                          replay=rp)
                avg = float(m.expected_degree(per_node=False, d=arg))
                ctx.check(close(avg, want), "HyMMSBM.expected_degree", "average: mean over the nodes of the per-node expected degree",
                          dict(inp, d=dd, per_node=False), expected=want, observed=avg, replay=rp)
            except Exception as e:      # noqa: BLE001
                ctx.check(False, "HyMMSBM.expected_degree", RAISES, dict(inp, d=dd, error=_exc(e)),
                          key=_raise_key("HyMMSBM.expected_degree", e), replay=rp)


# --------------------------------------------------------------------------------------------------------------
# (B) fit
# --------------------------------------------------------------------------------------------------------------
GRAPHS = [
    dict(name="g4-unweighted", edges=[(0, 1), (1, 2), (0, 1, 2), (2, 3), (1, 2, 3)], weights=None, isolated=[]),
    dict(name="g5-weighted", edges=[(0, 1, 2), (2, 3, 4), (0, 4), (1, 3), (0, 1, 2, 3)], weights=[2, 1, 3, 1, 2],
         isolated=[]),
    dict(name="g6-weighted-size5", edges=[(0, 1), (0, 2), (0, 3), (1, 2, 3, 4, 5), (3, 4), (4, 5)],
         weights=[1, 5, 2, 1, 1, 3], isolated=[]),
    dict(name="g4-strings", edges=[("a", "b"), ("b", "c", "d"), ("a", "d"), ("c", "d")], weights=None, isolated=[]),
    dict(name="g6-shifted-isolated", edges=[(10, 11, 12), (12, 14), (14, 15), (10, 15), (11, 12, 14, 15)],
         weights=[1, 2, 1, 1, 4], isolated=[13]),
    dict(name="g5-uniform3", edges=[(0, 1, 2), (0, 1, 3), (1, 2, 4), (2, 3, 4), (0, 3, 4)], weights=[3, 1, 1, 2, 1],
         isolated=[]),
    dict(name="g5-graph", edges=[(0, 1), (1, 2), (2, 3), (3, 4), (0, 4), (0, 2)], weights=None, isolated=[]),
]


# weighted hypergraphs whose weights are NOT integers (the model's A_e are then real-valued "counts"; the EM bound holds for any
# non-negative A_e), including weights below 1
FLOAT_GRAPHS = [
    dict(name="g6-float-weights", edges=[(0, 1, 2), (1, 2), (2, 3, 4, 5), (0, 5), (3, 4, 5), (1, 4), (0, 1, 2, 3, 4)],
         weights=[1.5, 2.0, 0.5, 3.0, 1.0, 0.7, 2.2], isolated=[]),
    dict(name="g6-float-strings-isolated", edges=[("p", "q"), ("q", "r", "s"), ("p", "s", "t"), ("r", "t"), ("p", "q", "r", "t")],
         weights=[0.5, 2.2, 0.25, 1.75, 3.3], isolated=["z"]),
    dict(name="g5-float-below-one", edges=[(0, 1), (1, 2, 3), (0, 3, 4), (2, 4), (0, 1, 2, 3, 4), (1, 4)],
         weights=[0.9, 0.35, 0.6, 0.125, 0.8, 0.45], isolated=[]),
]


def _prior_value(np, spec, shape, pseed, tag):
    """A prior rate as the constructor takes it: a float, or - spec "array" - a strictly positive ndarray of rates of the given
    shape (symmetric when square: the constructor asks for a symmetric matrix with the shape of w)."""
    if spec != "array":
        return spec
    rng = np.random.default_rng([pseed, tag, shape[0], shape[1]])
    r = 0.25 + 2.5 * rng.random(shape)
    if shape[0] == shape[1]:
        r = np.triu(r) + np.triu(r, 1).T
    return r


def _build_graph(Hypergraph, g):
    edges = [tuple(e) for e in g["edges"]]
    if g["weights"] is None:
        H = Hypergraph(edges)
    else:
        H = Hypergraph(edges, weighted=True, weights=list(g["weights"]))
    for v in g["isolated"]:
        H.add_node(v)
    return H


def _graph_data(np, H):
    """Through the public API: N, data {frozenset of row indices: weight}, largest size."""
    enc = H.get_mapping()
    nodes = list(H.get_nodes())
    idx = {v: int(enc.transform([v])[0]) for v in nodes}
    data = {}
    for e, wt in zip(H.get_edges(), H.get_weights()):
        data[frozenset(idx[v] for v in e)] = float(wt)
    return len(nodes), data, max(len(e) for e in data)


def _objective(np, u, w, data, N, D, rate):
    """Exact Poisson log-likelihood over all subsets of size 2..D (+ log exponential prior on C*w when rate > 0; rate may be a
    (K, K) array of rates, one per entry of w)."""
    G = np.asarray(u, dtype=float) @ np.asarray(w, dtype=float) @ np.asarray(u, dtype=float).T
    ll = 0.0
    cdef = 0.0
    for d in range(2, D + 1):
        kap = _kappa_def(N, d)
        cdef += sum(1 for e in itertools.combinations(range(N), d) if 0 in e and 1 in e) / kap
        for e in itertools.combinations(range(N), d):
            lam = 0.0
            for i, j in itertools.combinations(e, 2):
                lam += G[i, j]
            mean = lam / kap
            a = data.get(frozenset(e), 0.0)
            ll -= mean
            if a:
                if mean <= 0:
                    return -math.inf
                ll += a * math.log(mean) - math.lgamma(a + 1)
    for e in data:
        if len(e) > D:
            return -math.inf
    if isinstance(rate, np.ndarray):
        ll -= cdef * float(np.sum(rate * np.asarray(w, dtype=float)))
    elif rate:
        ll -= rate * cdef * float(np.sum(w))
    return ll


def _supplied_u(np, g_N, K, pseed, sparse_u):
    rng = np.random.default_rng([pseed, 151])
    u = rng.random((g_N, K)) + 0.05
    if sparse_u:
        u[rng.random((g_N, K)) < 0.3] = 0.0
    return u


def _param_clauses(ctx, np, m, inp, rp, assortative):
    fn = "HyMMSBM.fit"
    u, w = np.asarray(m.u, dtype=float), np.asarray(m.w, dtype=float)
    ctx.check(bool(np.all(np.isfinite(u)) and np.all(np.isfinite(w))), fn, "all parameters finite", inp,
              observed=dict(u=u, w=w), replay=rp)
    ctx.check(bool(np.all(np.nan_to_num(u) >= -1e-12) and np.all(np.nan_to_num(w) >= -1e-12)), fn,
              "all parameters non-negative up to rounding", inp, observed=dict(u_min=float(np.nanmin(u)), w_min=float(np.nanmin(w))),
              replay=rp)
    if np.all(np.isfinite(w)):
        scale = max(1e-300, float(np.max(np.abs(w))))
        ctx.check(w.ndim == 2 and w.shape[0] == w.shape[1] and bool(np.all(np.abs(w - w.T) <= TOL * scale)), fn,
                  "w symmetric", inp, observed=w, replay=rp)
        if assortative:
            ctx.check(bool(np.all(w[~np.eye(w.shape[0], dtype=bool)] == 0)), fn, "w diagonal when assortative", inp,
                      observed=w, replay=rp)


def _run_fit(ctx, cfg):
    np, sp, sparse, Hypergraph, HyMMSBM, lin, to_coo = _imports()
    fn = "HyMMSBM.fit"
    g = next(x for x in GRAPHS + FLOAT_GRAPHS if x["name"] == cfg["graph"])
    H = _build_graph(Hypergraph, g)
    N, data, Dd = _graph_data(np, H)
    K, ass, seed, mode = cfg["K"], cfg["assortative"], cfg["seed"], cfg["mode"]
    # prior rates: floats, or "array" = an ndarray of rates with the shape of the parameter (w_prior symmetric)
    up = _prior_value(np, cfg["u_prior"], (N, K), cfg["pseed"], 154)
    wp = _prior_value(np, cfg["w_prior"], (K, K), cfg["pseed"], 155)
    no_w_prior = isinstance(wp, float) and wp == 0.0
    mhs = {"none": None, "data": Dd, "N": N}[cfg["max_hye_size"]]
    D = Dd if mhs is None else mhs
    rp = dict(part="fit", **cfg)
    inp = dict(cfg, edges=g["edges"], weights=g["weights"], isolated=g["isolated"])

    u0 = w0 = None
    if mode in ("u", "both"):
        u0 = _supplied_u(np, N, K, cfg["pseed"], cfg.get("sparse_u", False))
        if cfg.get("sparse_u"):
            # admissible only if every observed hyperedge keeps a positive Poisson parameter under any allowed w
            wmin = np.eye(K) if ass else np.ones((K, K))
            Gm = u0 @ wmin @ u0.T
            bad = any(sum(Gm[i, j] for i, j in itertools.combinations(sorted(e), 2)) <= 0 for e in data)
            if not bad and no_w_prior:
                # without a prior the M-step for w_kq is 0/0 when no two distinct nodes populate communities k and q
                for k in range(K):
                    for q in range(K):
                        if ass and k != q:
                            continue
                        if sum(u0[i, k] * u0[j, q] for i in range(N) for j in range(N) if i != j) <= 0:
                            bad = True
            if bad:
                ctx.case(dict(cfg, skipped="supplied u gives an observed hyperedge probability zero / leaves an affinity entry undetermined"),
                         nontrivial=False)
                return
    if mode in ("w", "both"):
        rng = np.random.default_rng([cfg["pseed"], 152])
        w0 = rng.random((K, K)) + 0.1
        w0 = np.triu(w0) + np.triu(w0, 1).T
        if ass:
            w0 = np.diag(np.diag(w0))

    def build():
        uu = None if u0 is None else u0.copy()
        ww = None if w0 is None else w0.copy()
        priors = [x.copy() if isinstance(x, np.ndarray) else x for x in (up, wp)]
        m = HyMMSBM(K=K, u=uu, w=ww, assortative=ass, max_hye_size=mhs, u_prior=priors[0], w_prior=priors[1], seed=seed)
        return m, uu, ww, priors

    def fit(n):
        m, uu, ww, priors = build()
        try:
            m.fit(H, n_iter=n)
        except Exception as e:
            ctx.check(False, fn, RAISES, dict(inp, n_iter=n, error=_exc(e)), key=_raise_key(fn, e), replay=rp)
            return None
        i2 = dict(inp, n_iter=n)
        same = True
        what = []
        if u0 is not None:
            if not (m.u is not None and np.array_equal(np.asarray(m.u), u0) and np.array_equal(uu, u0)):
                same = False
                what.append("u")
        if w0 is not None:
            if not (m.w is not None and np.array_equal(np.asarray(m.w), w0) and np.array_equal(ww, w0)):
                same = False
                what.append("w")
        for name, val, mine in (("K", K, None), ("assortative", ass, None), ("u_prior", up, priors[0]), ("w_prior", wp, priors[1])):
            got = getattr(m, name, None)
            if isinstance(val, np.ndarray):
                # an array of rates: the model still holds these values and the caller's array is untouched
                if not (isinstance(got, np.ndarray) and np.array_equal(got, val) and np.array_equal(mine, val)):
                    same = False
                    what.append(name)
            elif not (type(got) in (type(val), np.bool_) and got == val):
                same = False
                what.append(name)
        if mhs is not None and not (m.max_hye_size == mhs):
            same = False
            what.append("max_hye_size")
        ctx.check(same, fn, "parameters supplied at construction are unchanged", i2, observed=what, replay=rp)
        ok_shape = getattr(m.u, "shape", None) == (N, K) and getattr(m.w, "shape", None) == (K, K)
        ctx.check(ok_shape, fn, "u is N x K and w is K x K afterwards", i2,
                  observed=[getattr(m.u, "shape", None), getattr(m.w, "shape", None)], replay=rp)
        if ok_shape:
            _param_clauses(ctx, np, m, i2, rp, ass)
        if n == 1 and (u0 is not None or w0 is not None):
            # fit() never changes a supplied parameter: also not when the same model object is fitted again
            try:
                m.fit(H, n_iter=1)
                again = []
                if u0 is not None and not (m.u is not None and np.array_equal(np.asarray(m.u), u0) and np.array_equal(uu, u0)):
                    again.append("u")
                if w0 is not None and not (m.w is not None and np.array_equal(np.asarray(m.w), w0) and np.array_equal(ww, w0)):
                    again.append("w")
                ctx.check(not again, fn, "parameters supplied at construction are unchanged by a second fit of the same object", i2,
                          observed=again, replay=rp)
            except Exception as e:      # noqa: BLE001
                ctx.check(False, fn, RAISES, dict(inp, n_iter=n, second_fit=True, error=_exc(e)), key=_raise_key(fn, e), replay=rp)
        return m

    if mode != "u":
        done = 0
        for n in (1, 5):
            if fit(n) is not None:
                done += 1
        ctx.case(dict(cfg), nontrivial=done > 0)
        return

    # ---- memberships supplied: ascent in n_iter = 1..8
    ws, objs = [], []
    for n in range(1, 9):
        m = fit(n)
        if m is None or getattr(m.w, "shape", None) != (K, K):
            ctx.case(dict(cfg), nontrivial=False)
            return
        ws.append(np.array(m.w, dtype=float))
        objs.append(_objective(np, u0, ws[-1], data, N, D, wp))
    ctx.case(dict(cfg))
    check_ascent = no_w_prior or mhs is not None
    if check_ascent and all(np.all(np.isfinite(x)) for x in ws):
        scale = max([1.0] + [abs(x) for x in objs if math.isfinite(x)])
        good = all(math.isfinite(x) for x in objs) and all(b >= a - TOL * scale for a, b in zip(objs, objs[1:]))
        ctx.check(good, fn,
                  "with u supplied the exact Poisson likelihood (posterior when a prior rate is set) never decreases with n_iter",
                  dict(inp, D=D), observed=objs, replay=rp)
    # ---- the prefix reading (not a clause of the statement: counted, reported as an assumption if it breaks)
    if g in FLOAT_GRAPHS or isinstance(wp, np.ndarray):
        return      # counted on the integer-weight / scalar-rate configurations only (budget)
    m2 = build()[0]
    try:
        m2.fit(H, n_iter=8)
        ctx.count("fit: same seed and n_iter give bit-identical w", int(np.array_equal(np.asarray(m2.w), ws[-1])))
        ctx.count("fit: determinism comparisons", 1)
    except Exception:
        pass
    if hasattr(HyMMSBM, "_w_update"):
        m3 = build()[0]
        rec = []
        orig = m3._w_update

        def spy(*a, **k):
            r = orig(*a, **k)
            rec.append(np.array(r, dtype=float))
            return r
        try:
            m3._w_update = spy
            m3.fit(H, n_iter=8)
            if len(rec) == 8:
                c = m3.C()
                pref = all(np.allclose(rec[k] / c, ws[k], rtol=1e-12, atol=0) for k in range(8))
                ctx.count("fit: k-th iterate of an 8-iteration run equals fit(n_iter=k)", int(pref))
                ctx.count("fit: prefix comparisons", 1)
        except Exception:
            pass


# --------------------------------------------------------------------------------------------------------------
# (R) one model object, several hypergraphs
# --------------------------------------------------------------------------------------------------------------
REUSED = " (model object already used for another hypergraph)"


def _edge_lists(N, E, relation, hseed, dmin):
    """Three lists of distinct hyperedges (sorted index tuples) on N nodes: A and B have E hyperedges each and differ as
    lists, C has E-1 or E+1."""
    import random
    R = random.Random(hseed)
    pool = _subsets(N, dmin)
    A = R.sample(pool, E)
    B = None
    if relation == "permuted columns" and E >= 2:
        k = R.randint(1, E - 1)
        B = A[k:] + A[:k]
    elif relation == "one column differs":
        B = list(A)
        B[R.randrange(E)] = R.choice([e for e in pool if e not in A])
    elif relation == "same sizes":
        for _ in range(20):
            cand = [tuple(sorted(R.sample(range(N), len(e)))) for e in A]
            if cand != A and len(set(cand)) == E:
                B = cand
                break
    while B is None or B == A:
        B = R.sample(pool, E)
    C = R.sample(pool, E + 1 if (E == 1 or R.random() < 0.5) else E - 1)
    return A, B, C


def _labelled_hypergraph(Hypergraph, N, edges, labels, weights=None):
    lab = {"int": lambda i: i, "shifted": lambda i: 10 + 3 * i, "str": lambda i: "n" + chr(ord("g") - i)}[labels]
    es = [tuple(lab(i) for i in e) for e in edges]
    H = Hypergraph(es) if weights is None else Hypergraph(es, weighted=True, weights=list(weights))
    covered = {i for e in edges for i in e}
    for i in range(N):
        if i not in covered:
            H.add_node(lab(i))
    return H


def _columns(np, B):
    """The hyperedges an incidence matrix describes, read off the matrix itself: per column the sorted row indices."""
    M = np.asarray(B.todense() if hasattr(B, "todense") else B)
    return [tuple(int(i) for i in np.nonzero(M[:, j])[0]) for j in range(M.shape[1])]


class _Reused:
    """One live model object and the brute-force definitions for ITS current parameters (read through the public
    attributes u, w).  Every question asked is appended to `history`, which is part of the reported input."""

    def __init__(self, ctx, np, sp, m, N, D, tag, desc, rp, history):
        self.ctx, self.np, self.sp, self.m, self.N, self.D, self.tag = ctx, np, sp, m, N, D, tag
        self.desc, self.rp, self.history = desc, rp, history
        self.valid = False
        self.refresh()

    def refresh(self):
        np, N = self.np, self.N
        try:
            u, w = np.asarray(self.m.u, dtype=float), np.asarray(self.m.w, dtype=float)
        except Exception:
            self.valid = False
            return
        self.valid = bool(u.ndim == 2 and u.shape[0] == N and w.shape == (u.shape[1], u.shape[1])
                          and np.all(np.isfinite(u)) and np.all(np.isfinite(w)))
        if not self.valid:
            return
        K = u.shape[1]
        g = [[sum(float(u[i, k]) * float(w[k, q]) * float(u[j, q]) for k in range(K) for q in range(K))
              for j in range(N)] for i in range(N)]
        # w is symmetric by the statement (after fit: up to rounding), so u_i^T w u_j is taken as the mean of both orders
        self.G = [[0.5 * (g[i][j] + g[j][i]) for j in range(N)] for i in range(N)]
        self.alg = _Algebra("num", np, self.sp, scale=max(abs(x) for row in self.G for x in row))
        self.lam_all = {e: self.lam(e) for e in _subsets(N)}
        self.lam_scale = max([abs(v) for v in self.lam_all.values()] + [1e-300])
        self.kap = {d: _kappa_def(N, d) for d in range(2, N + 1)}

    def lam(self, e):
        return sum(self.G[i][j] for i, j in itertools.combinations(e, 2))

    def _inp(self, **kw):
        return dict(self.desc, model=self.tag, history=list(self.history), **kw)

    def _guard(self, function, thunk, inp):
        try:
            return True, thunk()
        except Exception as e:      # noqa: BLE001
            self.ctx.check(False, function, RAISES, dict(inp, error=_exc(e)), key=_raise_key(function, e), replay=self.rp)
            return False, None

    def ask_poisson(self, name, fmt, B, edges):
        """poisson_params(B) against the definition for the hyperedges B describes (edges: index tuples per column)."""
        fn = "HyMMSBM.poisson_params"
        self.history.append("%s.poisson_params(%s as %s)" % (self.tag, name, fmt))
        if not self.valid:
            return
        inp = self._inp(hyperedges=[list(e) for e in edges], incidence=fmt)
        ok, lams = self._guard(fn, lambda: self.m.poisson_params(B), inp)
        if not ok:
            return
        good, bad = True, None
        if getattr(lams, "shape", None) != (len(edges),):
            good, bad = False, ("shape", getattr(lams, "shape", None))
        else:
            for j, e in enumerate(edges):
                c, dev = self.alg.close(lams[j], self.lam(e), self.lam_scale)
                if not c:
                    good, bad = False, dict(column=j, hyperedge=list(e), expected=self.lam(e), observed=self.alg.show(lams[j]),
                                            deviation=dev)
                    break
        self.ctx.check(good, fn, "equals the sum over the node pairs of u_i^T w u_j" + REUSED, inp, observed=bad,
                       replay=self.rp)

    def _vector(self, function, clause, inp, observed, expected):
        good, bad = True, None
        if getattr(observed, "shape", None) != (len(expected),):
            good, bad = False, ("shape", getattr(observed, "shape", None))
        else:
            sc = max([abs(x) for x in expected] + [1e-300])
            for i, x in enumerate(expected):
                c, dev = self.alg.close(observed[i], x, sc)
                if not c:
                    good, bad = False, dict(index=i, expected=x, observed=self.alg.show(observed[i]), deviation=dev)
                    break
        self.ctx.check(good, function, clause + REUSED, inp, observed=bad, replay=self.rp)

    def ask_statistics(self, dsel):
        """The expected statistics (independent of any hypergraph) against the sums over ALL possible hyperedges."""
        self.history.append("%s.expected statistics(d=all,%d)" % (self.tag, dsel))
        if not self.valid:
            return
        m, N, D, kap, lam_all = self.m, self.N, self.D, self.kap, self.lam_all

        def per_node(sizes):
            return [sum(lam_all[e] / kap[len(e)] for e in lam_all if len(e) in sizes and i in e) for i in range(N)]

        every = set(range(2, D + 1))
        for dd, sizes in (("all", every), (dsel, {dsel})):
            inp = self._inp(d=dd, per_node=True)
            exp = per_node(sizes)
            ok, obs = self._guard("HyMMSBM.expected_degree", lambda: m.expected_degree(per_node=True, d=dd), inp)
            if ok:
                self._vector("HyMMSBM.expected_degree", "per node: sum over the hyperedges containing the node of lambda/kappa",
                             inp, obs, exp)
            inp = self._inp(d=dd, per_node=False)
            ok, obs = self._guard("HyMMSBM.expected_degree", lambda: m.expected_degree(per_node=False, d=dd), inp)
            if ok:
                avg = sum(exp) / N
                c, dev = self.alg.close(obs, avg)
                self.ctx.check(c, "HyMMSBM.expected_degree",
                               "average: mean over the nodes of the per-node expected degree" + REUSED, inp, expected=avg,
                               observed=self.alg.show(obs), replay=self.rp)
        inp = self._inp(include_dyadic=True, expected=True)
        ok, obs = self._guard("HyMMSBM.degree_sequence", lambda: m.degree_sequence(include_dyadic=True, expected=True), inp)
        if ok:
            self._vector("HyMMSBM.degree_sequence",
                         "expected: per node, sum over the hyperedges (of the included sizes) containing it of lambda/kappa",
                         inp, obs, per_node(every))
        ok, obs = self._guard("HyMMSBM.dimension_sequence",
                              lambda: m.dimension_sequence(include_dyadic=True, expected=True), inp)
        if ok:
            good, bad = isinstance(obs, dict), None
            if good:
                got = {int(k): v for k, v in obs.items()}
                if not set(got) <= every:
                    good, bad = False, dict(sizes_reported=sorted(got), sizes_allowed=sorted(every))
                for d in sorted(every):
                    if not good:
                        break
                    s = sum(lam_all[e] / kap[d] for e in lam_all if len(e) == d)
                    c, dev = self.alg.close(got.get(d, 0), s, self.lam_scale)
                    if not c:
                        good, bad = False, dict(size=d, expected=s, observed=self.alg.show(got.get(d, 0)), deviation=dev)
            else:
                bad = repr(obs)[:200]
            self.ctx.check(good, "HyMMSBM.dimension_sequence",
                           "expected: per size, sum over the hyperedges of that size of lambda/kappa" + REUSED, inp,
                           observed=bad, replay=self.rp)


FORMATS = ("dense", "scipy csr_array", "coo_array from hye_list_to_binary_incidence", "binary_incidence_matrix(Hypergraph)")


def _make_incidence(np, sparse, Hypergraph, to_coo, fmt, edges, N, labels):
    """(matrix, hyperedges per column).  For the matrix the library builds from a Hypergraph the hyperedges are read off
    the matrix itself, so no column / row order is assumed."""
    if fmt == "binary_incidence_matrix(Hypergraph)" and all(len(e) >= 2 for e in edges):
        from hypergraphx.linalg.linalg import binary_incidence_matrix
        B = binary_incidence_matrix(_labelled_hypergraph(Hypergraph, N, edges, labels))
        return fmt, B, _columns(np, B)
    if fmt.startswith("coo") or fmt.startswith("binary"):
        return FORMATS[2], to_coo([tuple(e) for e in edges], shape=(N, len(edges))), list(edges)
    B = np.zeros((N, len(edges)), dtype=int)
    for j, e in enumerate(edges):
        for i in e:
            B[i, j] = 1
    return (fmt, B if fmt == "dense" else sparse.csr_array(B), list(edges))


def _run_reuse(ctx, desc):
    """Two models with supplied parameters, alive together; hypergraphs A, B (same numbers of nodes and hyperedges) and C
    are passed to them one after the other, in a seeded order and in seeded matrix formats, interleaved with the expected
    statistics.  Every single answer is compared with the definition for the matrix passed in THAT call."""
    import random
    np, sp, sparse, Hypergraph, HyMMSBM, lin, to_coo = _imports()
    N, D, E = desc["N"], desc["D"], desc["E"]
    rp = dict(part="reuse", **desc)
    A, B, C = _edge_lists(N, E, desc["relation"], desc["hseed"], 1)
    if desc["order"] == "BA":
        A, B = B, A
    lists = dict(A=A, B=B, C=C)
    R = random.Random(desc["hseed"] * 31 + 7)
    history = []
    models = []
    for t in (0, 1):
        u, w = _numeric_params(np, dict(desc, pseed=desc["pseed"] * 2 + t))
        try:
            m = HyMMSBM(u=u.copy(), w=w.copy(), max_hye_size=D)
        except Exception as e:      # noqa: BLE001
            ctx.check(False, "HyMMSBM.__init__", RAISES, dict(desc, error=_exc(e)), key=_raise_key("HyMMSBM.__init__", e), replay=rp)
            return
        models.append(_Reused(ctx, np, sp, m, N, D, "m%d" % (t + 1), dict(desc, A=A, B=B, C=C), rp, history))
    # a fixed skeleton (A, B, A on the first model; the second model interleaved) followed by seeded steps
    steps = [(0, "A"), (0, "B"), (1, "B"), (0, "stats"), (0, "A"), (1, "A"), (0, "C"), (0, "B"), (1, "stats"), (1, "B")]
    steps += [(R.randrange(2), R.choice(["A", "B", "A", "B", "C", "stats"])) for _ in range(6)]
    same_format = R.random() < 0.5
    fmt0 = R.choice(FORMATS)
    for who, what in steps:
        mod = models[who]
        if what == "stats":
            mod.ask_statistics(R.randint(2, D))
        else:
            fmt = fmt0 if same_format else R.choice(FORMATS)
            fmt, M, cols = _make_incidence(np, sparse, Hypergraph, to_coo, fmt, lists[what], N, desc["labels"])
            mod.ask_poisson(what, fmt, M, cols)


def _run_refit(ctx, cfg):
    """ONE model object: fit(A), questions about B and A, fit(B), the same questions again (A, B: same node set, same
    number of hyperedges).  After every fit the clauses of fit() (supplied parameters untouched, finite, non-negative,
    symmetric / diagonal); every answer against the definition for the model's current u, w and the matrix passed."""
    np, sp, sparse, Hypergraph, HyMMSBM, lin, to_coo = _imports()
    from hypergraphx.linalg.linalg import binary_incidence_matrix
    fn = "HyMMSBM.fit"
    N, E, K, ass, mode, n = cfg["N"], cfg["E"], cfg["K"], cfg["assortative"], cfg["mode"], cfg["n_iter"]
    rp = dict(part="refit", **cfg)
    A, B, C = _edge_lists(N, E, cfg["relation"], cfg["hseed"], 2)
    if cfg["order"] == "BA":
        A, B = B, A
    rng = np.random.default_rng([cfg["hseed"], 153])
    wts = {k: ([int(x) for x in rng.integers(1, 5, size=len(v))] if cfg["weighted"] else None)
           for k, v in (("A", A), ("B", B), ("C", C))}
    lists = dict(A=A, B=B, C=C)
    graphs = {k: _labelled_hypergraph(Hypergraph, N, lists[k], cfg["labels"], wts[k]) for k in lists}
    inp = dict(cfg, A=A, B=B, C=C, weights=wts)

    u0 = w0 = None
    if mode == "u":
        u0 = _supplied_u(np, N, K, cfg["pseed"], False)
    if mode == "w":
        w0 = np.random.default_rng([cfg["pseed"], 152]).random((K, K)) + 0.1
        w0 = np.triu(w0) + np.triu(w0, 1).T
        if ass:
            w0 = np.diag(np.diag(w0))
    uu = None if u0 is None else u0.copy()
    ww = None if w0 is None else w0.copy()
    try:
        m = HyMMSBM(K=K, u=uu, w=ww, assortative=ass, max_hye_size=N, u_prior=cfg["u_prior"], w_prior=cfg["w_prior"],
                    seed=cfg["seed"])
    except Exception as e:      # noqa: BLE001
        ctx.check(False, "HyMMSBM.__init__", RAISES, dict(inp, error=_exc(e)), key=_raise_key("HyMMSBM.__init__", e), replay=rp)
        ctx.case(dict(part="RF", **cfg), nontrivial=False)
        return
    history = []
    mod = None

    def do_fit(name):
        history.append("m.fit(%s, n_iter=%d)" % (name, n))
        i2 = dict(inp, history=list(history))
        try:
            m.fit(graphs[name], n_iter=n)
        except Exception as e:      # noqa: BLE001
            ctx.check(False, fn, RAISES, dict(i2, error=_exc(e)), key=_raise_key(fn, e), replay=rp)
            return False
        what = []
        if u0 is not None and not (m.u is not None and np.array_equal(np.asarray(m.u), u0) and np.array_equal(uu, u0)):
            what.append("u")
        if w0 is not None and not (m.w is not None and np.array_equal(np.asarray(m.w), w0) and np.array_equal(ww, w0)):
            what.append("w")
        for nm, val in (("K", K), ("assortative", ass), ("u_prior", cfg["u_prior"]), ("w_prior", cfg["w_prior"]),
                        ("max_hye_size", N)):
            got = getattr(m, nm, None)
            if not (type(got) in (type(val), np.bool_) and got == val):
                what.append(nm)
        ctx.check(not what, fn, "parameters supplied at construction are unchanged" + (REUSED if len(history) > 1 else ""), i2,
                  observed=what, replay=rp)
        ok_shape = getattr(m.u, "shape", None) == (N, K) and getattr(m.w, "shape", None) == (K, K)
        ctx.check(ok_shape, fn, "u is N x K and w is K x K afterwards", i2,
                  observed=[getattr(m.u, "shape", None), getattr(m.w, "shape", None)], replay=rp)
        if ok_shape:
            _param_clauses(ctx, np, m, i2, rp, ass)
        return ok_shape

    def questions(order):
        mod.refresh()
        for k, name in enumerate(order):
            if name == "stats":
                mod.ask_statistics(2 + (cfg["hseed"] + k) % (N - 1))
                continue
            if name == "loglik":
                # not a clause of the statement: only part of the history (it evaluates the Poisson parameters of A)
                history.append("m.log_likelihood(A)  [value not checked]")
                try:
                    m.log_likelihood(graphs["A"])
                except Exception:       # noqa: BLE001
                    pass
                continue
            if k % 2 == 0:
                M = binary_incidence_matrix(graphs[name])
                mod.ask_poisson(name, FORMATS[3], M, _columns(np, M))
            else:
                fmt, M, cols = _make_incidence(np, sparse, Hypergraph, to_coo, FORMATS[(cfg["hseed"] + k) % 3], lists[name], N,
                                               cfg["labels"])
                mod.ask_poisson(name, fmt, M, cols)

    if not do_fit("A"):
        ctx.case(dict(part="RF", **cfg), nontrivial=False)
        return
    mod = _Reused(ctx, np, sp, m, N, N, "m", dict(cfg, A=A, B=B, C=C, weights=wts), rp, history)
    ctx.case(dict(part="RF", **cfg), nontrivial=mod.valid)
    questions(["B", "A", "stats", "B", "C", "A"])
    if not do_fit("B"):
        return
    questions(["A", "B", "stats", "loglik", "B", "A"])


# --------------------------------------------------------------------------------------------------------------
# plans
# --------------------------------------------------------------------------------------------------------------
def _reuse_plan(quick, seed):
    import random
    R = random.Random(seed * 6007 + 1515)
    plan = []
    for i in range(150 if quick else 1500):
        N = R.randint(3, 6 if quick else 7)
        plan.append(dict(N=N, K=R.randint(1, 3), w=R.choice(["full", "diagonal"]), D=R.randint(2, N),
                         E=R.randint(1, 2 if N == 3 else 6), scale=R.choice([0.01, 1.0, 30.0]),
                         relation=R.choice(["random", "same sizes", "permuted columns", "one column differs"]),
                         order=R.choice(["AB", "BA"]), labels=R.choice(["int", "shifted", "str"]),
                         pseed=seed * 100000 + i, hseed=seed * 100000 + 50000 + i))
    return plan


def _refit_plan(quick, seed):
    import random
    R = random.Random(seed * 6011 + 1516)
    plan = []
    for i in range(90 if quick else 900):
        mode = ("u", "w", "none")[i % 3]
        up, wp = R.choice([(0.0, 0.0), (0.0, 1.0), (0.5, 0.0)])
        if mode == "u":
            up = 0.0
        plan.append(dict(N=R.randint(4, 6), E=R.randint(2, 6), K=R.randint(2, 3), assortative=R.random() < 0.5, mode=mode,
                         n_iter=R.randint(1, 4), u_prior=up, w_prior=wp, weighted=R.random() < 0.5,
                         relation=R.choice(["random", "same sizes", "permuted columns", "one column differs"]),
                         order=R.choice(["AB", "BA"]), labels=R.choice(["int", "shifted", "str"]),
                         seed=seed * 1000 + i, pseed=seed * 1000 + i, hseed=seed * 100000 + 70000 + i))
    return plan


def _symbolic_plan(quick):
    Ns = range(2, 5) if quick else range(2, 7)
    Ks = (1, 2) if quick else (1, 2, 3)
    plan = []
    for N in Ns:
        for K in Ks:
            if K == 3 and N > 5:
                continue
            for wk in ("full", "diagonal"):
                if K == 1 and wk == "diagonal":
                    continue
                for D in range(2, N + 1):
                    plan.append(dict(N=N, K=K, w=wk, D=D))
    return plan


def _numeric_plan(quick, seed):
    import random
    R = random.Random(seed * 7919 + 15)
    plan = []
    for i in range(300 if quick else 3000):
        N = R.randint(2, 6 if quick else 7)
        plan.append(dict(N=N, K=R.randint(1, 3), w=R.choice(["full", "diagonal"]), D=R.randint(2, N),
                         scale=R.choice([0.01, 1.0, 30.0]), pseed=seed * 100000 + i))
    return plan


def _fit_plan(quick, seed):
    plan = []
    seeds = range(3) if quick else range(10)
    for g in GRAPHS:
        for s in seeds:
            for K in (2, 3):
                for ass in (True, False):
                    for wp in (0.0, 1.0):
                        for mhs in ("none", "data", "N"):
                            plan.append(dict(graph=g["name"], mode="u", K=K, assortative=ass, seed=seed * 1000 + s,
                                             pseed=seed * 1000 + s, u_prior=0.0, w_prior=wp, max_hye_size=mhs))
                    # sparse supplied memberships (zeros), only with full w / default prior
                    plan.append(dict(graph=g["name"], mode="u", K=K, assortative=ass, seed=seed * 1000 + s,
                                     pseed=seed * 1000 + s, u_prior=0.0, w_prior=0.0, max_hye_size="data",
                                     sparse_u=True))
                    for mode in ("w", "none", "both"):
                        for up, wp in ((0.0, 1.0), (0.5, 0.0)):
                            plan.append(dict(graph=g["name"], mode=mode, K=K, assortative=ass, seed=seed * 1000 + s,
                                             pseed=seed * 1000 + s, u_prior=up, w_prior=wp,
                                             max_hye_size="none" if s % 2 else "data"))
                    # prior rates given as ARRAYS (w_prior: symmetric (K, K); u_prior: (N, K))
                    base = dict(graph=g["name"], K=K, assortative=ass, seed=seed * 1000 + s, pseed=seed * 1000 + s)
                    plan.append(dict(base, mode="u", u_prior=0.0, w_prior="array", max_hye_size="data"))
                    plan.append(dict(base, mode="none", u_prior="array" if s % 2 else 0.0, w_prior="array",
                                     max_hye_size="none" if s % 2 else "data"))
                    plan.append(dict(base, mode="w", u_prior="array", w_prior=1.0, max_hye_size="data"))
    # hypergraphs with non-integer weights
    for g in FLOAT_GRAPHS:
        for s in (seeds[:2] if quick else seeds):
            for K in (2, 3):
                for ass in (True, False):
                    base = dict(graph=g["name"], K=K, assortative=ass, seed=seed * 1000 + s, pseed=seed * 1000 + s)
                    for wp, mhs in ((0.0, "data"), (0.0, "N"), (1.0, "data"), ("array", "N")):
                        plan.append(dict(base, mode="u", u_prior=0.0, w_prior=wp, max_hye_size=mhs))
                    plan.append(dict(base, mode="u", u_prior=0.0, w_prior=0.0, max_hye_size="data", sparse_u=True))
                    plan.append(dict(base, mode="none", u_prior=0.0, w_prior=0.0, max_hye_size="data"))
                    plan.append(dict(base, mode="none", u_prior=0.5, w_prior="array", max_hye_size="none"))
                    plan.append(dict(base, mode="w", u_prior="array" if s % 2 else 0.0, w_prior=1.0, max_hye_size="data"))
    return plan


def run(ctx):
    import numpy as np
    old = np.seterr(all="ignore")
    try:
        with warnings.catch_warnings():
            warnings.simplefilter("ignore")
            _run(ctx)
    finally:
        np.seterr(**old)


def _run(ctx):
    ctx = _Dedup(ctx)
    ctx.rule("(S) every shape N<=%d, K, w full/diagonal, D<=N: real closed forms on symbolic object arrays vs. brute force over "
             "all subsets; (N) seeded random numeric parameters with zeros, dense/csr/coo incidence; (K) N up to 5000, K=1, equal rows "
             "of u: log_kappa / C / expected statistics vs. exact big-integer counting; (B) 7 hypergraphs (+3 with non-integer "
             "weights) x seeds x K x assortative x prior rate (float, or symmetric (K,K) / (N,K) arrays of rates) x max_hye_size, "
             "fit with n_iter=1..8; (R) seeded sequences of poisson_params / expected "
             "statistics / fit on ONE model object for hypergraphs A, B with equal numbers of nodes and hyperedges (and C), "
             "each answer against the definition for the hypergraph passed. A case is non-trivial if the model could be "
             "built / fit returned finite parameters (a skipped or raising case is trivial)." % (4 if ctx.quick else 6))
    ctx.assume("sympy expansion and coefficient extraction; arithmetic on symbolic entries is real arithmetic")
    ctx.assume("coefficient / relative tolerance 1e-9 for 'equal', -1e-12 for non-negativity")
    ctx.assume("'x > 0' on a symbolic expected count is decided for generic strictly positive parameters")
    ctx.assume("kappa(d) = C(d,2) * C(N-2,d-2) is the library's only normalisation (kappa_fn='binom+avg')")
    ctx.assume("with a prior rate r > 0 'likelihood' is read as the MAP objective LL - r*sum(C*w) that EM ascends "
               "(array of rates: LL - sum(r*C*w) entrywise)")
    ctx.assume("math.comb / math.log on Python ints and fractions.Fraction are exact / correctly rounded (oracle for large N)")
    ctx.assume("rows of u correspond to nodes through Hypergraph.get_mapping()")

    for desc in _symbolic_plan(ctx.quick):
        ctx.case(dict(part="S", **desc))
        _run_symbolic(ctx, desc)
    ctx.exhaustive_parts.append("symbolic identities for every shape N in 2..%d, K in %s, w full/diagonal, D in 2..N, "
                                "all subsets of the node set as hyperedges" % ((4, "{1,2}") if ctx.quick else (6, "{1,2,3} (K=3: N<=5)")))
    t_s = ctx.elapsed()
    for desc in _numeric_plan(ctx.quick, ctx.seed):
        ctx.case(dict(part="N", **desc))
        _run_numeric(ctx, desc)
    _run_large_kappa(ctx)
    t_n = ctx.elapsed()
    for cfg in _fit_plan(ctx.quick, ctx.seed):
        _run_fit(ctx, cfg)
    t_f = ctx.elapsed()
    for desc in _reuse_plan(ctx.quick, ctx.seed):
        ctx.case(dict(part="R", **desc))
        _run_reuse(ctx, desc)
    for cfg in _refit_plan(ctx.quick, ctx.seed):
        _run_refit(ctx, cfg)
    ctx.count("seconds symbolic", round(t_s, 1))
    ctx.count("seconds numeric", round(t_n - t_s, 1))
    ctx.count("seconds fit", round(t_f - t_n, 1))
    ctx.count("seconds reuse of one model object", round(ctx.elapsed() - t_f, 1))
    a, b = ctx.counters.get("fit: same seed and n_iter give bit-identical w", 0), ctx.counters.get("fit: determinism comparisons", 0)
    if a != b:
        ctx.assume("WARNING: fit with equal seed was not reproducible in %d of %d comparisons" % (b - a, b))
    a, b = ctx.counters.get("fit: k-th iterate of an 8-iteration run equals fit(n_iter=k)", 0), ctx.counters.get("fit: prefix comparisons", 0)
    if a != b:
        ctx.assume("WARNING: runs with equal seed were not prefixes of each other in %d of %d comparisons" % (b - a, b))


def replay(data):
    import numpy as np
    col = _Collector()
    data = dict(data)
    part = data.pop("part", None)
    key = data.pop("key", None)
    old = np.seterr(all="ignore")
    try:
        with warnings.catch_warnings():
            warnings.simplefilter("ignore")
            if part == "fit":
                _run_fit(col, data)
            elif part == "reuse":
                _run_reuse(col, data)
            elif part == "refit":
                _run_refit(col, data)
            elif part == "quantities":
                carrier = data.pop("carrier", "numeric")
                (_run_symbolic if carrier == "symbolic" else _run_numeric)(col, data)
            elif part == "K":
                _run_large_kappa(col)
            else:
                return True, "nothing to replay"
    finally:
        np.seterr(**old)
    fails = [f for f in col.failures if key is None or f[0] == key]
    if fails:
        k, inp, exp, obs = fails[0]
        return False, f"{k} fails ({len(fails)} time(s) on this input): input={inp} expected={exp} observed={obs}"[:1500]
    return True, ("clause %s holds on this input" % key) if key else "all clauses hold on this input"
