"""C05 bounded tier: sub-hypergraph extraction and copy.

Scope (bounded): all Hypergraph contents on nodes {0,1,2,3} (all four always present, so isolated nodes occur) with <= 3 hyperedges of size 1..3
(quick: <= 2) drawn from the 14 candidates, plus seeded random contents on <= 6 nodes with hyperedges up to size 5; weighted and unweighted; node and
hyperedge metadata; integer and string labels (random part). For each: every node subset (induced sub-hypergraph), every list of sizes / orders with
keep_nodes in {F,T}, every (order|size, up_to, keep_isolated_nodes) for get_edges(subhypergraph=True), the largest component (no filter), copy().
DirectedHypergraph: get_edges(subhypergraph=True, ...) and copy() on all contents with <= 2 (quick) / 3 directed hyperedges over {0,1,2,3}.
Clauses (from the statement): same weightedness; exactly the selected hyperedges with original weights and metadata; the documented node set with the
original node metadata; the source is unchanged; copy() equals the source and later mutations of either side do not affect the other.
Oracle: set-builder definitions over a plain snapshot (nodes+metadata, hyperedges+weight+metadata) taken through the public API.
"""
import copy as _copy
import itertools
from .. import common
from .containers import msort

PROPERTY = "C05"


def snap(h, incidences=False):
    d = dict(weighted=h.is_weighted(), nodes={repr(n): _copy.deepcopy(h.get_node_metadata(n)) for n in h.get_nodes()},
             edges={repr(_norm(e)): [h.get_weight(e), _copy.deepcopy(h.get_edge_metadata(e))] for e in h.get_edges()},
             hm=_copy.deepcopy(h.get_hypergraph_metadata()))
    if incidences:     # what get_incidence_metadata answers (source and copy only: an extraction's incidence metadata is not spoken of)
        d["incidences"] = {repr(k): _copy.deepcopy(v) for k, v in h.get_all_incidences_metadata().items()}
    return d


def _norm(e):
    if len(e) == 2 and isinstance(e[0], (tuple, list)):
        return [sorted(e[0], key=repr), sorted(e[1], key=repr)]
    return sorted(e, key=repr)


def build(content):
    from hypergraphx import Hypergraph, DirectedHypergraph
    cls = DirectedHypergraph if content["cls"] == "D" else Hypergraph
    h = cls(weighted=content["weighted"])
    for n, md in content["nodes"]:
        h.add_node(n, _copy.deepcopy(md))
    ghost = None
    if content.get("detour") and content["nodes"]:
        # same content reached through a detour: a node with metadata and a hyperedge on it are inserted first and removed at the end,
        # so internal tables may hold entries for a removed node / hyperedge that no extraction may resurrect
        first = content["nodes"][0][0]
        ghost = "zz" if isinstance(first, str) else max(n for n, _ in content["nodes"]) + 7
        h.add_node(ghost, {"ghost": True})
        ge = ((ghost,), (first,)) if content["cls"] == "D" else (first, ghost)
        if content["weighted"]:
            h.add_edge(ge, 9, metadata={"ghost": 1})
        else:
            h.add_edge(ge, metadata={"ghost": 1})
    for e, w, md in content["edges"]:
        e = (tuple(e[0]), tuple(e[1])) if content["cls"] == "D" else tuple(e)
        if content["weighted"]:
            h.add_edge(e, w, metadata=_copy.deepcopy(md))
        else:
            h.add_edge(e, metadata=_copy.deepcopy(md))
    if ghost is not None:
        h.remove_node(ghost)
    # incidence metadata on the first two incidences of the first hyperedge (an observable of the source that copy() must carry over)
    for e, w, md in content["edges"][:1]:
        key = (tuple(sorted(e[0], key=repr)), tuple(sorted(e[1], key=repr))) if content["cls"] == "D" else tuple(sorted(e, key=repr))
        members = (list(e[0]) + list(e[1])) if content["cls"] == "D" else list(e)
        for i, n in enumerate(members[:2]):
            h.set_incidence_metadata(key, n, {"role": i, "tags": [repr(n)]})
    return h


def esize(content, e):
    return len(e[0]) + len(e[1]) if content["cls"] == "D" else len(e)


def enodes(content, e):
    return set(e[0]) | set(e[1]) if content["cls"] == "D" else set(e)


def expect(content, keep_edge, nodes):
    """Expected snapshot (without hypergraph metadata) of an extraction."""
    nm = dict((repr(n), md) for n, md in content["nodes"])
    return dict(weighted=content["weighted"], nodes={repr(n): nm[repr(n)] for n in nodes},
                edges={repr(_norm(e)): [w if content["weighted"] else 1, md] for e, w, md in content["edges"] if keep_edge(e)})


def sel(size, f):
    if "order" in f:
        o = f["order"]
    else:
        o = f["size"] - 1
    return size - 1 <= o if f.get("up_to") else size - 1 == o


def check_extract(ctx, content, fn, clause_prefix, result, exp, rep):
    got = snap(result)
    got.pop("hm")
    inp = dict(content=content, call=rep)
    for part, what in (("weighted", "same weightedness"), ("edges", "exactly the selected hyperedges with original weights and metadata"),
                       ("nodes", "the documented node set with the original node metadata")):
        ctx.check(_eq(exp[part], got[part]), fn, what, inp, expected=exp[part], observed=got[part], key=f"{fn}:{what}", replay=dict(content=content, call=rep))


def _eq(a, b):
    if isinstance(a, dict) and isinstance(b, dict):
        return set(a) == set(b) and all(_eq(a[k], b[k]) for k in a)
    if isinstance(a, list) and isinstance(b, list):
        return len(a) == len(b) and all(_eq(x, y) for x, y in zip(a, b))
    if isinstance(a, bool) or isinstance(b, bool):
        return a is b
    return a == b


def components(content):
    nodes = [n for n, _ in content["nodes"]]
    parent = {n: n for n in nodes}

    def find(x):
        while parent[x] != x:
            parent[x] = parent[parent[x]]
            x = parent[x]
        return x
    for e, _, _ in content["edges"]:
        e = list(e)
        for a in e[1:]:
            parent[find(a)] = find(e[0])
    comps = {}
    for n in nodes:
        comps.setdefault(find(n), set()).add(n)
    return list(comps.values())


def run_content(ctx, content):
    fnp = "Hypergraph" if content["cls"] == "H" else "DirectedHypergraph"
    h = build(content)
    before = snap(h, True)
    V = [n for n, _ in content["nodes"]]
    allsizes = sorted({esize(content, e) for e, _, _ in content["edges"]} | {1, 2})

    def run(call, exp_fn, f):
        try:
            res = f()
        except Exception as ex:     # noqa: BLE001
            ctx.check(False, f"{fnp}.{call[0]}", "does not raise on admissible input", dict(content=content, call=call), observed=type(ex).__name__,
                      key=f"{fnp}.{call[0]}:raises-on-admissible-input", replay=dict(content=content, call=call))
            return
        check_extract(ctx, content, f"{fnp}.{call[0]}", "", res, exp_fn(), call)

    if content["cls"] == "H":
        for r in range(len(V) + 1):
            for sub in itertools.combinations(V, r):
                run(["subhypergraph", list(sub)], lambda sub=sub: expect(content, lambda e: set(e) <= set(sub), sub), lambda sub=sub: h.subhypergraph(list(sub)))
        # a node listed more than once selects the same node subset: the same hyperedges with their original weights (once)
        for sub in [tuple(V) + tuple(V[:1]), tuple(V[:2]) + tuple(V[:2]), tuple(V[-1:]) + tuple(V) + tuple(V[-1:])]:
            if sub:
                run(["subhypergraph", list(sub)], lambda sub=sub: expect(content, lambda e: set(e) <= set(sub), sorted(set(sub), key=repr)),
                    lambda sub=sub: h.subhypergraph(list(sub)))
        for r in range(0, len(allsizes) + 1):
            for ss in itertools.combinations(allsizes, r):
                for keep in (True, False):
                    def exp(ss=ss, keep=keep):
                        ke = lambda e: len(e) in ss
                        nodes = V if keep else sorted(set().union(*[set(e) for e, _, _ in content["edges"] if ke(e)]) if content["edges"] else [], key=repr)
                        return expect(content, ke, nodes)
                    run(["subhypergraph_by_orders", "sizes", list(ss), keep], exp, lambda ss=ss, keep=keep: h.subhypergraph_by_orders(sizes=list(ss), keep_nodes=keep))
                    run(["subhypergraph_by_orders", "orders", [s - 1 for s in ss], keep], exp,
                        lambda ss=ss, keep=keep: h.subhypergraph_by_orders(orders=[s - 1 for s in ss], keep_nodes=keep))
        # a size / order listed more than once selects the same hyperedges, with their original weights (once)
        for ss in [(a, a) for a in allsizes] + [(allsizes[0], allsizes[-1], allsizes[0])]:
            for keep in (True, False):
                def exp2(ss=ss, keep=keep):
                    ke = lambda e: len(e) in ss
                    nodes = V if keep else sorted(set().union(*[set(e) for e, _, _ in content["edges"] if ke(e)]) if content["edges"] else [], key=repr)
                    return expect(content, ke, nodes)
                run(["subhypergraph_by_orders", "sizes", list(ss), keep], exp2, lambda ss=ss, keep=keep: h.subhypergraph_by_orders(sizes=list(ss), keep_nodes=keep))
                run(["subhypergraph_by_orders", "orders", [s - 1 for s in ss], keep], exp2,
                    lambda ss=ss, keep=keep: h.subhypergraph_by_orders(orders=[s - 1 for s in ss], keep_nodes=keep))
        # largest component, without and with an order/size filter: any component of maximal size is acceptable
        for f in [dict()] + [dict(size=s_) for s_ in allsizes] + [dict(order=s_ - 1) for s_ in allsizes]:
            keep = (lambda e: True) if not f else (lambda e, f=f: len(e) == (f["size"] if "size" in f else f["order"] + 1))
            comps = components(dict(content, edges=[x for x in content["edges"] if keep(x[0])]))
            if not comps:
                continue
            call = ["largest", f]
            try:
                res = h.subhypergraph_largest_component(**f)
                got_nodes = set(res.get_nodes())
                mx = max(len(c) for c in comps)
                ok = any(got_nodes == c for c in comps if len(c) == mx)
                ctx.check(ok, "Hypergraph.subhypergraph_largest_component", "node set is a largest connected component (under the filter)", dict(content=content, filter=f),
                          expected=[sorted(c, key=repr) for c in comps if len(c) == mx], observed=sorted(got_nodes, key=repr),
                          key="Hypergraph.subhypergraph_largest_component:node set is a largest connected component", replay=dict(content=content, call=call))
                if ok:
                    check_extract(ctx, content, "Hypergraph.subhypergraph_largest_component", "", res,
                                  expect(content, lambda e: set(e) <= got_nodes, sorted(got_nodes, key=repr)), call)
            except Exception as ex:     # noqa: BLE001
                ctx.check(False, "Hypergraph.subhypergraph_largest_component", "does not raise on admissible input", dict(content=content, filter=f), observed=type(ex).__name__,
                          key="Hypergraph.subhypergraph_largest_component:raises-on-admissible-input", replay=dict(content=content, call=call))
    maxs = max([esize(content, e) for e, _, _ in content["edges"]] + [2])
    for f in [dict(order=o) for o in range(0, maxs)] + [dict(size=s) for s in range(1, maxs + 1)]:
        for up in (False, True):
            for iso in (False, True):
                ff = dict(f, up_to=up)
                def exp(ff=ff, iso=iso):
                    ke = lambda e: sel(esize(content, e), ff)
                    cov = set()
                    for e, _, _ in content["edges"]:
                        if ke(e):
                            cov |= enodes(content, e)
                    return expect(content, ke, V if iso else sorted(cov, key=repr))
                run(["get_edges", ff, iso], exp, lambda ff=ff, iso=iso: h.get_edges(subhypergraph=True, keep_isolated_nodes=iso, **ff))
    after = snap(h, True)
    ctx.check(_eq(before, after), f"{fnp}.extraction", "the extraction does not change the source", dict(content=content), expected=before, observed=after,
              key=f"{fnp}:extraction changes the source", replay=dict(content=content, call=["source"]))
    # copy: equal, and independent under later mutation of either side
    c = h.copy()
    ctx.check(_eq(before, snap(c, True)) and type(c) is type(h), f"{fnp}.copy", "copy() returns an equal hypergraph", dict(content=content), expected=before, observed=snap(c, True),
              key=f"{fnp}.copy:not equal", replay=dict(content=content, call=["copy"]))
    for side in (0, 1):
        a, b = (h.copy(), None)
        orig = h.copy()
        a, b = (orig, orig.copy())
        tgt, other = (a, b) if side == 0 else (b, a)
        ref = snap(other, True)
        for mut in mutations(content):
            try:
                mut(tgt)
            except Exception:   # noqa: BLE001
                pass
        ctx.check(_eq(ref, snap(other, True)), f"{fnp}.copy", "mutating one of original/copy does not affect the other", dict(content=content, mutated="original" if side == 0 else "copy"),
                  expected=ref, observed=snap(other), key=f"{fnp}.copy:shares state", replay=dict(content=content, call=["copy-independence", side]))
    ctx.case(content, nontrivial=bool(content["edges"]))


def mutations(content):
    D = content["cls"] == "D"
    newe = ((0,), (9,)) if D else (0, 9)
    ms = [lambda x: x.add_node(8, {"z": 1}), lambda x: x.add_edge(newe, metadata={"q": 1}),
          lambda x: x.set_hypergraph_metadata({"changed": True})]
    for e, _, _ in content["edges"][:1]:
        key = (tuple(sorted(e[0], key=repr)), tuple(sorted(e[1], key=repr))) if D else tuple(sorted(e, key=repr))
        n0 = (list(e[0]) + list(e[1]))[0] if D else list(e)[0]
        ms.append(lambda x, key=key, n0=n0: x.get_incidence_metadata(key, n0).update(touched=True))
        ms.append(lambda x, key=key, n0=n0: x.set_incidence_metadata(key, n0, {"replaced": True}))
    for n, _ in content["nodes"][:2]:
        ms.append(lambda x, n=n: x.set_attr_to_node_metadata(n, "mut", 1))
        ms.append(lambda x, n=n: x.set_node_metadata(n, {"replaced": 1}))
    for e, _, _ in content["edges"][:2]:
        e = (tuple(e[0]), tuple(e[1])) if D else tuple(e)
        ms.append(lambda x, e=e: x.set_attr_to_edge_metadata(e, "mut", 2))
        ms.append(lambda x, e=e: x.set_weight(e, 1))
        ms.append(lambda x, e=e: x.remove_edge(e))
    for n, _ in content["nodes"][-1:]:
        ms.append(lambda x, n=n: x.remove_node(n))
    return ms


def contents(ctx):
    quick = ctx.quick
    out = []
    V = [0, 1, 2, 3]
    cands = [c for r in (1, 2, 3) for c in itertools.combinations(V, r)]
    NM = [{}, {"name": "n1"}, {"g": [1, 2]}, {}]
    kmax = 2 if quick else 3
    i = 0
    for k in range(0, kmax + 1):
        for es in itertools.combinations(cands, k):
            for weighted in (False, True):
                i += 1
                edges = [[list(reversed(e)) if (i + j) % 2 else list(e), (j + 2) if weighted else 1, {"id": j} if (i + j) % 3 else {}] for j, e in enumerate(es)]
                out.append(dict(cls="H", weighted=weighted, nodes=[[n, NM[(n + i) % 4]] for n in V], edges=edges))
    dc = []
    for s in range(1, 3):
        for src in itertools.combinations(V, s):
            rest = [x for x in V if x not in src]
            for t in range(1, 3):
                for tgt in itertools.combinations(rest, t):
                    dc.append((src, tgt))
    for k in range(0, (2 if quick else 3) + 1):
        combos = list(itertools.combinations(dc, k))
        step = 1 if k < 2 else (7 if quick else 11)
        for idx in range(0, len(combos), step):
            es = combos[idx]
            for weighted in (False, True):
                i += 1
                out.append(dict(cls="D", weighted=weighted, nodes=[[n, NM[(n + i) % 4]] for n in V],
                                edges=[[[list(e[0]), list(e[1])], (j + 2) if weighted else 1, {"id": j} if (i + j) % 3 else {}] for j, e in enumerate(es)]))
    ctx.exhaustive_parts.append(f"Hypergraph: all contents on nodes 0..3 with <= {kmax} hyperedges of size <= 3, weighted and unweighted")
    rng = ctx.rng
    for r in range(60 if quick else 1500):
        n = rng.randrange(3, 7)
        lab = (lambda x: "abcdefg"[x]) if r % 3 == 0 else (lambda x: x * 5 + 1 if r % 3 == 1 else x)
        es = set()
        for _ in range(rng.randrange(1, 6)):
            es.add(tuple(sorted(rng.sample(range(n), rng.choice([1, 2, 2, 3, 4, 5][:n])))))
        weighted = bool(r % 2)
        out.append(dict(cls="H", weighted=weighted, nodes=[[lab(x), {"m": x} if x % 2 else {}] for x in range(n)],
                        edges=[[[lab(x) for x in e], rng.choice([1, 2, 0.5]) if weighted else 1, {"e": j} if j % 2 else {}] for j, e in enumerate(sorted(es))]))
    # every content once more, reached through an insert-then-remove detour (see build)
    out += [dict(c, detour=True) for j, c in enumerate(out) if (j % 4 == 0 or not quick)]
    return out


def _work(sub, chunk):
    for c in chunk:
        run_content(sub, c)


def run(ctx):
    ctx.rule("case = one hypergraph content (nodes with metadata, weighted hyperedges with metadata) on which every selection is extracted; non-trivial = has "
             "at least one hyperedge; distinct = distinct contents")
    cs = contents(ctx)
    step = max(1, len(cs) // 64)
    common.parallel_map(ctx, _work, [cs[i:i + step] for i in range(0, len(cs), step)])


def replay(data):
    ctx = common.Ctx("replay", "quick", 0)
    ctx._known = []
    run_content(ctx, data["content"])
    if ctx.violations:
        v = ctx.violations[0]
        return False, f"{v.function}: {v.clause}: expected {v.expected!r} observed {v.observed!r}"
    return True, "all extraction clauses hold on this content"
