"""C16 - Hy-MMSBM sampler yields valid hypergraphs respecting conditioning and seed.   (bounded tier)

Scope
-----
Every case is one HyMMSBMSampler configuration (parameters u, w on N <= 8 nodes - up to 12 in the "shared" cases, 24..30 in the
"numerical corner" cases below -, K <= 3, w full or diagonal, entries of u zero with probability 1/5; burn_in_steps and intermediate_steps in {0, 1, 20}; a seed in 0..9 (quick) / 0..99
(thorough)).  For every case two samplers are built with identical arguments and the first 5 hypergraphs of
sample(...) of each are taken.  Modes:

* "initial": sample(initial_hyg=H).  EXHAUSTIVE over all hypergraphs with >= 2 hyperedges of size >= 2 on 3 nodes (11)
  and all with 2 or 3 hyperedges on 4 nodes (220; thorough only: quick takes every 4th), crossed with the nine
  (burn-in, thinning) pairs; then seeded random H with 2..8 hyperedges of size 2..6 on <= 8 nodes with labels
  0..N-1, shifted integers or strings, weighted or not, possibly with isolated nodes.  u has one row per node of H (rows
  follow Hypergraph.get_mapping(), as the sampler does).  Hyperedges of size one are not generated (the statement
  promises sizes >= 2 for the output, so they are not admissible in the input).  Plus hard community assignments (one-hot u)
  with a diagonal w and an initial hypergraph containing a hyperedge across communities (Poisson parameter exactly zero).
  In all of the above the model's max_hye_size is left to its default (N).  "initial" with an EXPLICIT max_hye_size (the
  statement bounds the sizes by the model's maximum only "when sampling from the model"; conditioning on an initial
  hypergraph holds for all samplers, whatever their max_hye_size): every hypergraph on 3 nodes (11) with max_hye_size 2 and
  3; EXHAUSTIVE over the 58 hypergraphs on 4 nodes whose hyperedges have pairwise distinct sizes, with max_hye_size 2, 3
  and 4; random hypergraphs with pairwise distinct sizes (one hyperedge for each size of a random set of >= 2 sizes in
  2..N, N <= 8, largest size L >= 3) and random ones with repeated sizes (L >= 3), each with max_hye_size in
  {2, L-1 (below the largest initial hyperedge), L (equal), N, None}; all label kinds, weighted or not.
* "sequences": sample(deg_seq=..., dim_seq=...) with sum(deg_seq) = sum(size * count), >= 2 hyperedges, sizes 2..min(N,5);
  degree sequences realisable (degrees of a random hypergraph with these sizes), arbitrary, or concentrated on few nodes
  (not realisable); integer and float arrays; allow_rescaling False and True.  Whether the greedy construction matched
  is read from the public attribute matching_sequences after the first sample.
* "model": sample() from u, w alone; max_hye_size in {None, 2, 3, N}; exact_dyadic_sampling True/False; u scaled so that
  the expected number of hyperedges (brute-force sum of lambda_e/kappa_e) is about 0.01, 4, 12 or 40; plus graphs on
  three nodes with about one expected edge.
* "deg only" / "dim only": one of the two sequences given, the other drawn from the model (the docstring of sample()
  allows it; only the clauses about every produced hypergraph, the size counts (dim only) and the seed apply).

* "shared" cases (any of the modes above except "model"): the conditioning objects - the dim_seq dict, the deg_seq array, the
  initial Hypergraph - are built ONCE and the very same objects are handed to two samplers A and B (same parameters and seed;
  u and w are separate equal arrays, since allow_rescaling may rescale them in place) and then to a second sample() call on A
  and on B, 5 hypergraphs each.  All per-hypergraph and conditioning clauses are evaluated on A's first call, B's first call
  and A's second call; A and B must agree on the first call and on the second call; afterwards the dict (items, in order), the
  array (dtype, shape, values) and the hypergraph (nodes, hyperedges, weights, weightedness through the public API) must
  equal deep copies taken before the first call.  Sequences: N <= 12, sizes 2..5, realisable / arbitrary / concentrated, dict
  keys ascending or descending, allow_rescaling in one case of five; random initial hypergraphs on <= 9 nodes; a few "deg only" /
  "dim only".
* "numerical corner": initial hypergraphs on N = 24..30 nodes with 2..7 hyperedges of size 6..10 (pairwise distinct sizes in
  every other case), possibly next to hyperedges of size 2..5, all label kinds, weighted or not; u scaled by 1e-7 / 1e-5 / 1e-3
  ("tiny"), or with N/2..N-2 rows (nodes) set to zero ("zero rows": hyperedges with Poisson parameter exactly zero), or both,
  or all rows zero; (burn-in, thinning) = (0, 0) and one (quick) / three (thorough) other pairs; every fifth case "shared".  The
  same corner with both sequences given (degrees of a random hypergraph with 2..6 hyperedges of size 6..10), every other case
  "shared".  The Poisson mean of such hyperedges (parameter / kappa(size), kappa up to 1e8) is far below double precision;
  the exact degree / exact size clauses demand that none of them disappears.

Clauses (function HyMMSBMSampler.sample), per produced hypergraph: is weighted; weights are positive integers; no
repeated hyperedge (as node sets); every size >= 2; sizes <= max_hye_size (or N) when the sizes come from the model (modes
model / deg only); nodes are nodes of the model (0..N-1) / of the initial hypergraph; conditioned degrees never exceeded
(initial; sequences reported as matching); conditioned size counts never exceeded (initial; sequences, matching or not;
dim only); when the sample has as many hyperedges as the conditioning (= no two sampled hyperedges coincided and none
was dropped) every node has exactly its conditioned degree and every size its count (initial; matching sequences).
When the hyperedges of the initial hypergraph have pairwise distinct sizes the premise "no two sampled hyperedges
coincided" holds by the statement itself (no size exceeds its count of one, so two sampled hyperedges never have the same
size): there the exact degree / exact size clauses are checked on EVERY sample, from the produced hypergraph alone,
without looking at the raw configuration (so hyperedges left out of the chain are seen as well).
Per case: the two samplers give the same 5 hypergraphs (hyperedges with weights); sample() does not raise.  "shared" cases:
the same for the second sample() call of the two samplers (a sampler that consumes the caller's dim_seq / deg_seq / initial
hypergraph shows up there; "sample() leaves its arguments alone" is not a clause of the statement and is only counted).

Oracle: Counter arithmetic on the hyperedges returned by Hypergraph.get_edges()/get_weights(); degrees = number of
hyperedges containing the node.

Known limits
------------
* "No two sampled hyperedges coincided" is not observable through the public API; the driver wraps the instance's
  `_mcmc_routine` generator and reads it off the raw configuration (all hyperedges pairwise distinct as node sets), so a
  hyperedge dropped after the chain (zero weight) is a violation of the exact-degree clause.  If that routine is not
  there the premise falls back to "the produced hypergraph has as many hyperedges as the conditioning".
* Only the first 5 elements of each generated sequence are examined; burn-in / thinning only in {0, 1, 20}.
* In modes model / deg only / dim only the sampler also draws from the generator of its embedded HyMMSBM; on a tree where that
  model is not given the sampler's seed, which of those cases raise differs from run to run (the driver's own choices are
  all derived from ctx.seed).  Replays of such cases repeat the input up to 40 times.
* After a second sample() call on one sampler the public flag matching_sequences may still say False from the first call
  although the second construction matched; the degree clauses are then not evaluated for that call (fewer checks, no false
  alarm).
* The numerical corner is sampled, not enumerated; memberships below 1e-7 and N > 30 are not explored.
* An exception whose cause is a configuration with fewer than two hyperedges (nothing to reshuffle) is still reported as
  "does not raise on admissible input" because the statement quantifies over all u, w; the key carries the mode and the
  exception type so that such reports can be triaged separately.
"""
import collections
import itertools
import logging
import math
import multiprocessing
import os
import random
import warnings

PROPERTY = "C16"

FN = "HyMMSBMSampler.sample"
RAISES = "does not raise on admissible input"
N_SAMPLES = 5
UNCHANGED = "sample() leaves the caller's dim_seq / deg_seq / initial hypergraph as they were"
STEPS = [(b, t) for b in (0, 1, 20) for t in (0, 1, 20)]


def _imports():
    warnings.filterwarnings("ignore", category=SyntaxWarning)
    import numpy as np
    from hypergraphx import Hypergraph
    from hypergraphx.generation.hy_mmsbm_sampling import HyMMSBMSampler
    return np, Hypergraph, HyMMSBMSampler


# --------------------------------------------------------------------------------------------------------------
# one case
# --------------------------------------------------------------------------------------------------------------
def _params(np, cfg, N):
    rng = np.random.default_rng([cfg["pseed"], 16])
    K = cfg["K"]
    u = rng.random((N, K)) * cfg.get("scale", 1.0)
    u[rng.random((N, K)) < 0.2] = 0.0
    if cfg.get("u") == "hard":
        # hard assignments: node i belongs to community i mod K only; with a diagonal w a hyperedge joining nodes of different
        # communities only has Poisson parameter exactly zero (the case the sampler's lower clip exists for)
        u = np.zeros((N, K))
        u[np.arange(N), np.arange(N) % K] = cfg.get("scale", 1.0)
    if cfg.get("zero_rows"):
        # nodes without any membership: every hyperedge with at most one node outside these rows has Poisson parameter exactly zero
        u[[i for i in cfg["zero_rows"] if i < N], :] = 0.0
    w = rng.random((K, K)) + 0.05
    w = np.triu(w) + np.triu(w, 1).T
    if cfg.get("w") == "diagonal":
        w = np.diag(np.diag(w))
    if cfg.get("target") is not None:
        # rescale u so that the model's expected number of hyperedges (brute force over all subsets up to the maximum
        # size: sum of lambda_e / kappa_e) is about cfg["target"]
        D = cfg.get("max_hye_size") or N
        G = u @ w @ u.T
        expected = 0.0
        for d in range(2, D + 1):
            kappa = math.comb(N - 2, d - 2) * d * (d - 1) / 2
            for e in itertools.combinations(range(N), d):
                expected += sum(G[i, j] for i, j in itertools.combinations(e, 2)) / kappa
        if expected > 0:
            u = u * math.sqrt(cfg["target"] / expected)
    return u, w


def _label(kind, i):
    if kind == "shift":
        return 10 + 3 * i
    if kind == "str":
        return "n%d" % i
    return i


def _build_initial(Hypergraph, cfg):
    kind = cfg.get("labels", "id")
    edges = [tuple(_label(kind, i) for i in e) for e in cfg["edges"]]
    if cfg.get("weights"):
        H = Hypergraph(edges, weighted=True, weights=list(cfg["weights"]))
    else:
        H = Hypergraph(edges)
    for i in cfg.get("isolated", []):
        H.add_node(_label(kind, i))
    return H


def _snapshot(H):
    """{frozenset(hyperedge): weight} plus the raw lists, through the public API."""
    edges = list(H.get_edges())
    weights = list(H.get_weights())
    return edges, weights


def _prepare(np, Hypergraph, cfg):
    """The conditioning of one case: the expected nodes / degrees / size counts (oracle side, from cfg alone or from the
    initial hypergraph through its public API) and the objects handed to sample() (kw)."""
    mode = cfg["mode"]
    out = dict(N=None, nodes=None, deg=None, dim=None, total=None, distinct_sizes=False, kw={}, H=None)
    if mode == "initial":
        H = _build_initial(Hypergraph, cfg)
        out["H"] = H
        N = H.num_nodes()
        out["nodes"] = set(H.get_nodes())
        he = [tuple(e) for e in H.get_edges()]
        out["deg"] = collections.Counter(v for e in he for v in set(e))
        out["dim"] = collections.Counter(len(set(e)) for e in he)
        out["total"] = len(he)
        out["distinct_sizes"] = max(out["dim"].values()) == 1
    else:
        N = cfg["N"]
        out["nodes"] = set(range(N))
        if mode == "sequences":
            out["deg"] = collections.Counter({i: int(d) for i, d in enumerate(cfg["deg"])})
        if mode in ("sequences", "dim only"):
            out["dim"] = collections.Counter({int(k): int(v) for k, v in cfg["dim"].items()})
            out["total"] = sum(out["dim"].values())
    out["N"] = N
    kw = out["kw"]
    if mode == "initial":
        kw["initial_hyg"] = H
    if mode in ("sequences", "deg only"):
        kw["deg_seq"] = np.array(cfg["deg"], dtype=float if cfg.get("deg_dtype") == "float" else int)
    if mode in ("sequences", "dim only"):
        kw["dim_seq"] = {int(k): int(v) for k, v in cfg["dim"].items()}
    if mode != "initial" and "allow_rescaling" in cfg:
        kw["allow_rescaling"] = cfg["allow_rescaling"]
    return out


def _frozen(np, prep):
    """Deep, comparable copy of the caller's conditioning objects (dict items in order, array dtype and values, the initial
    hypergraph through its public API)."""
    kw = prep["kw"]
    out = {}
    if "dim_seq" in kw:
        out["dim_seq"] = [(repr(k), repr(v)) for k, v in kw["dim_seq"].items()]
    if "deg_seq" in kw:
        out["deg_seq"] = (str(kw["deg_seq"].dtype), list(kw["deg_seq"].shape), [repr(x) for x in kw["deg_seq"].tolist()])
    if prep["H"] is not None:
        H = prep["H"]
        out["initial_hyg"] = (bool(H.is_weighted()), [repr(v) for v in H.get_nodes()],
                              [repr(tuple(e)) for e in H.get_edges()], [repr(x) for x in H.get_weights()])
    return out


def _one_run(np, Sampler, cfg, prep, sampler=None):
    """One call of sample(**prep["kw"]) on a new sampler (or on `sampler`, a sampler that has been used before), first
    N_SAMPLES hypergraphs.  Returns (dict(error=..., samples=[(edges, weights, weighted)], matching=.., + the oracle side of prep),
    the sampler)."""
    out = dict(error=None, samples=[], raw_distinct=[], matching=None)
    for f in ("N", "nodes", "deg", "dim", "total", "distinct_sizes"):
        out[f] = prep[f]
    s = sampler
    try:
        raw = []
        if s is None:
            u, w = _params(np, cfg, prep["N"])
            s = Sampler(u=u, w=w, max_hye_size=cfg.get("max_hye_size"), exact_dyadic_sampling=cfg.get("exact", True),
                        burn_in_steps=cfg["burn"], intermediate_steps=cfg["thin"], seed=cfg["seed"])
            # "no two sampled hyperedges coincided" is a fact about the raw configuration the chain hands to sample(): observe it by
            # wrapping the chain generator of this instance (falls back to counting hyperedges when the routine is not there)
            chain = getattr(s, "_mcmc_routine", None)
            if callable(chain):
                def tee(*a, **k):
                    for config in chain(*a, **k):
                        s._hv_raw.append([frozenset(h) for h in config])
                        yield config
                s._mcmc_routine = tee
        s._hv_raw = raw   # configurations yielded to THIS call of sample()
        gen = s.sample(**prep["kw"])
        for k in range(N_SAMPLES):
            Hs = next(gen)
            edges, weights = _snapshot(Hs)
            out["samples"].append((edges, weights, bool(Hs.is_weighted())))
            out["raw_distinct"].append((len(set(raw[k])) == len(raw[k])) if len(raw) > k else None)
            if k == 0:
                out["matching"] = getattr(s, "matching_sequences", None)
    except Exception as e:  # noqa: BLE001 - any exception of the code under test is an observation
        out["error"] = (type(e).__name__, str(e)[:160])
    return out, s


def _case(cfg):
    """Runs one case; returns a json-able record: events = [(ok, clause, key, input, expected, observed)] with passes
    aggregated as counts."""
    np, Hypergraph, Sampler = _imports()
    logging.disable(logging.WARNING)
    old = np.seterr(all="ignore")
    passes = collections.Counter()
    fails = []
    mode = cfg["mode"]
    shared = bool(cfg.get("shared"))
    # key class: is everything the sample is conditioned on supplied by the caller, or (partly) drawn from the model?
    cls = "conditioning given" if mode in ("initial", "sequences") else "conditioning drawn from the model"

    def plain(v):
        return int(v) if isinstance(v, np.integer) else v

    def check(cond, clause, observed=None, expected=None, key=None, extra=None):
        if cond:
            passes[clause] += 1
        else:
            passes[clause] += 0
            fails.append(dict(clause=clause, key=key or f"{FN}:{clause}[{cls}]", expected=expected, observed=observed,
                              input=dict(cfg, **(extra or {}))))
        return cond

    before = after = None
    try:
        with warnings.catch_warnings():
            warnings.simplefilter("ignore")
            if not shared:
                # two samplers, each with its own (equal) conditioning objects; the clauses are evaluated on the first, the second
                # is only compared with it
                runs = [("first sampler", _one_run(np, Sampler, cfg, _prepare(np, Hypergraph, cfg))[0], True),
                        ("second sampler", _one_run(np, Sampler, cfg, _prepare(np, Hypergraph, cfg))[0], False)]
                pairs = [(0, 1)]
            else:
                # the SAME dim_seq dict / deg_seq array / initial hypergraph for two samplers A, B and for a second sample() call
                # on each of them; u and w are separate (equal) arrays per sampler, since allow_rescaling may rescale them in place
                prep = _prepare(np, Hypergraph, cfg)
                before = _frozen(np, prep)
                a1, sa = _one_run(np, Sampler, cfg, prep)
                b1, sb = _one_run(np, Sampler, cfg, prep)
                runs = [("sampler A, first sample() call", a1, True), ("sampler B (same objects), first sample() call", b1, True)]
                pairs = [(0, 1)]
                if a1["error"] is None and b1["error"] is None:
                    a2, _ = _one_run(np, Sampler, cfg, prep, sampler=sa)
                    b2, _ = _one_run(np, Sampler, cfg, prep, sampler=sb)
                    runs += [("sampler A, second sample() call", a2, True), ("sampler B, second sample() call", b2, False)]
                    pairs.append((2, 3))
                after = _frozen(np, prep)
    finally:
        np.seterr(**old)
        logging.disable(logging.NOTSET)

    nontrivial = False
    for tag, r, full in runs:
        if r["error"] is not None:
            passes[RAISES] += 0
            fails.append(dict(clause=RAISES, key=f"{FN}:{RAISES}[{cls}: {r['error'][0]}]", expected=None,
                              observed="%s: %s" % r["error"],
                              input=dict(cfg, samples_before_error=len(r["samples"]), **({"run": tag} if shared else {}))))
        else:
            passes[RAISES] += 1
        if not full:
            continue  # only compared with its twin (same clauses, same input)
        D = cfg.get("max_hye_size") or r["N"]
        matching = r["matching"] is True
        for k, (edges, weights, weighted) in enumerate(r["samples"]):
            ex = dict(sample_index=k, hyperedges=[[plain(v) for v in e] for e in edges], weights=[plain(x) for x in weights])
            if shared:
                ex["run"] = tag
            sets = [frozenset(e) for e in edges]
            if len(sets) >= 2:
                nontrivial = True
            check(weighted and len(weights) == len(edges), "is a weighted hypergraph", extra=ex)
            check(all(isinstance(x, (int, np.integer)) and not isinstance(x, bool) and x > 0 for x in weights),
                  "weights are positive integers", observed=[repr(x) for x in weights], extra=ex)
            check(len(set(sets)) == len(sets), "no repeated hyperedge", extra=ex)
            check(all(len(s) >= 2 for s in sets), "every hyperedge has size at least two", extra=ex)
            if mode in ("model", "deg only"):
                check(all(len(s) <= D for s in sets), "sizes at most the maximum size of the model", expected=D, extra=ex)
            check(all(v in r["nodes"] for s in sets for v in s),
                  "only nodes of the model / of the initial hypergraph", expected=sorted(r["nodes"], key=repr), extra=ex)
            deg = collections.Counter(v for s in sets for v in s)
            dim = collections.Counter(len(s) for s in sets)
            cond_deg = mode == "initial" or (mode == "sequences" and matching)
            cond_dim = mode in ("initial", "sequences", "dim only")
            if cond_deg:
                check(all(deg[v] <= r["deg"].get(v, 0) for v in deg), "no node exceeds its conditioned degree",
                      expected=dict(r["deg"]), observed=dict(deg), extra=ex)
            if cond_dim:
                check(all(dim[d] <= r["dim"].get(d, 0) for d in dim), "no size exceeds its conditioned count",
                      expected=dict(r["dim"]), observed=dict(dim), extra=dict(ex, matching_sequences=r["matching"]))
            rd = r["raw_distinct"][k] if k < len(r["raw_distinct"]) else None
            # initial hyperedges of pairwise distinct sizes: sampled hyperedges cannot coincide (sizes are conditioned), the
            # premise needs no look at the raw configuration
            if cond_deg and (r["distinct_sizes"] or (rd if rd is not None else len(sets) == r["total"])):
                check(all(deg.get(v, 0) == r["deg"].get(v, 0) for v in r["nodes"]),
                      "every node has exactly its conditioned degree when nothing coincided", expected=dict(r["deg"]),
                      observed=dict(deg), extra=ex)
                check(+dim == +r["dim"], "every size has exactly its conditioned count when nothing coincided",
                      expected=dict(r["dim"]), observed=dict(dim), extra=ex)

    def canon(r):
        return [sorted(((sorted(repr(plain(v)) for v in e), repr(plain(x))) for e, x in zip(edges, weights)))
                for edges, weights, _ in r["samples"]]
    for i, j in pairs:
        (ta, a, _), (tb, b, _) = runs[i], runs[j]
        if a["error"] is None or b["error"] is None:
            same = canon(a) == canon(b) and (a["error"] is None) == (b["error"] is None)
            check(same, "same parameters and seed give the same sequence of samples",
                  observed=dict(first=canon(a)[:2], second=canon(b)[:2], errors=[a["error"], b["error"]], runs=[ta, tb]))
    if shared:
        # NOT a clause of the statement (C16 does not say that sample() leaves its arguments alone): counted only. A sampler that consumes
        # the caller's objects is reported through "same parameters and seed give the same samples" on the shared cases above.
        pass
    first = runs[0][1]
    # report at most 8 failures per case, one of every kind (key) first
    firsts, seen_keys = [], set()
    for f in fails:
        if f["key"] not in seen_keys:
            seen_keys.add(f["key"])
            firsts.append(f)
    n_fails = len(fails)
    fails = (firsts + [f for f in fails if not any(f is g for g in firsts)])[:8]
    return dict(cfg=cfg, passes=dict(passes), fails=fails, n_fails=n_fails, nontrivial=nontrivial,
                matching=first["matching"], raised=first["error"] is not None, runs=len(runs),
                coincided=sum(1 for e, _, _ in first["samples"] if first["total"] is not None and len(e) < first["total"]),
                full=sum(1 for e, _, _ in first["samples"] if first["total"] is not None and len(e) == first["total"]))


# --------------------------------------------------------------------------------------------------------------
# plan
# --------------------------------------------------------------------------------------------------------------
def _plan(quick, seed):
    R = random.Random(seed * 104729 + 16)
    S = 10 if quick else 100
    plan = []
    counter = [0]

    def emit(base, steps, n_seeds):
        for (b, t) in steps:
            for _ in range(n_seeds):
                i = counter[0]
                counter[0] += 1
                plan.append(dict(base, burn=b, thin=t, seed=i % S, pseed=seed * 1000003 + i))

    # ---- initial hypergraphs: exhaustive small scope
    exhaustive = []
    for N, sizes in ((3, None), (4, (2, 3))):
        possible = [e for d in range(2, N + 1) for e in itertools.combinations(range(N), d)]
        for m in (range(2, len(possible) + 1) if sizes is None else sizes):
            for es in itertools.combinations(possible, m):
                exhaustive.append((N, [list(e) for e in es]))
    for j, (N, es) in enumerate(exhaustive):
        if quick and N == 4 and j % 4:
            continue
        covered = sorted({v for e in es for v in e})
        iso = [v for v in range(N) if v not in covered]
        emit(dict(mode="initial", edges=es, isolated=iso, labels="id", K=1 + j % 3, w="full" if j % 2 else "diagonal"),
             STEPS, 1)
    # ---- initial hypergraphs: random
    for j in range(40 if quick else 400):
        N = R.randint(2, 8)
        possible_n = 2 ** N - N - 1
        m = min(R.randint(2, 8), possible_n)
        if m < 2:
            continue
        es = set()
        while len(es) < m:
            d = R.randint(2, min(N, 6))
            es.add(tuple(sorted(R.sample(range(N), d))))
        es = [list(e) for e in sorted(es)]
        covered = {v for e in es for v in e}
        iso = [v for v in range(N) if v not in covered and R.random() < 0.5]
        base = dict(mode="initial", edges=es, isolated=iso, labels=R.choice(["id", "shift", "str"]), K=R.randint(1, 3),
                    w=R.choice(["full", "diagonal"]), scale=R.choice([0.05, 1.0, 5.0]))
        if R.random() < 0.5:
            base["weights"] = [R.randint(1, 5) for _ in es]
        emit(base, STEPS, 1 if quick else 2)
    # ---- hard communities with a diagonal w: the initial hypergraph contains hyperedges whose Poisson parameter is exactly zero
    for j in range(12 if quick else 120):
        N = R.randint(4, 8)
        K = R.randint(2, 3)
        es = set()
        for _ in range(R.randint(2, 6)):
            d = R.randint(2, min(N, 4))
            es.add(tuple(sorted(R.sample(range(N), d))))
        a = R.randrange(N)
        es.add(tuple(sorted((a, (a + 1) % N))))           # consecutive nodes: different communities (K >= 2)
        es = [list(e) for e in sorted(es)]
        emit(dict(mode="initial", edges=es, isolated=[], labels=R.choice(["id", "shift", "str"]), K=K, w="diagonal", u="hard",
                  scale=R.choice([0.5, 1.0, 3.0])), [(0, 0), (0, 1), (1, 0), (20, 1)], 1)
    # ---- initial hypergraphs, sampler built with an explicit max_hye_size: below / equal to / above the largest initial hyperedge
    three = [e for d in (2, 3) for e in itertools.combinations(range(3), d)]
    j = 0
    for m in range(2, len(three) + 1):
        for es in itertools.combinations(three, m):
            j += 1
            for D in (2, 3):
                emit(dict(mode="initial", edges=[list(e) for e in es], isolated=[], labels="id", K=1 + j % 3,
                          w="full" if j % 2 else "diagonal", max_hye_size=D), [STEPS[(j + 4 * D + 3 * k) % 9] for k in range(3)], 1)
    # pairwise distinct sizes on 4 nodes, all of them: one hyperedge for each size of a set of >= 2 sizes
    by_size = {d: list(itertools.combinations(range(4), d)) for d in (2, 3, 4)}
    j = 0
    for n_sizes in (2, 3):
        for sizes in itertools.combinations((2, 3, 4), n_sizes):
            for es in itertools.product(*(by_size[d] for d in sizes)):
                j += 1
                covered = {v for e in es for v in e}
                for D in (2, 3, 4):
                    steps = [STEPS[(j + 2 * D + 4 * k) % 9] for k in range(2)] if quick else STEPS
                    emit(dict(mode="initial", edges=[list(e) for e in es], isolated=[v for v in range(4) if v not in covered],
                              labels="id", K=1 + j % 3, w="full" if j % 2 else "diagonal", max_hye_size=D), steps, 1)
    # random: pairwise distinct sizes (no coincidence possible), then repeated sizes; largest size L >= 3
    for j in range(48 if quick else 320):
        distinct = j % 2 == 0
        N = R.randint(3, 8)
        if distinct:
            sizes = R.sample(range(2, N + 1), R.randint(2, min(N - 1, 5)))
            if max(sizes) < 3:
                sizes.append(3)
        else:
            sizes = [R.randint(2, min(N, 6)) for _ in range(R.randint(2, 7))] + [R.randint(3, min(N, 6))]
        es = set()
        for d in sizes:
            es.add(tuple(sorted(R.sample(range(N), d))))
        es = [list(e) for e in sorted(es)]
        if len(es) < 2:
            continue
        L = max(len(e) for e in es)
        covered = {v for e in es for v in e}
        iso = [v for v in range(N) if v not in covered and R.random() < 0.5]
        base = dict(mode="initial", edges=es, isolated=iso, labels=R.choice(["id", "shift", "str"]), K=R.randint(1, 3),
                    w=R.choice(["full", "diagonal"]), scale=R.choice([0.05, 1.0, 5.0]))
        if R.random() < 0.5:
            base["weights"] = [R.randint(1, 5) for _ in es]
        for i, D in enumerate(sorted({2, L - 1, L, N}) + [None]):
            steps = [STEPS[(j + i + 4 * k) % 9] for k in range(2)] if quick else STEPS
            emit(dict(base, max_hye_size=D), steps, 1)
    # ---- degree and size sequences with equal totals
    for j in range(45 if quick else 450):
        N = R.randint(2, 8) if j >= 4 else 2
        E = R.randint(2, 8)
        dim = collections.Counter(R.randint(2, min(N, 5)) for _ in range(E))
        total = sum(d * c for d, c in dim.items())
        kind = ("realisable", "arbitrary", "concentrated")[j % 3]
        deg = [0] * N
        if kind == "realisable":
            for d, c in sorted(dim.items()):
                for _ in range(c):
                    for v in R.sample(range(N), d):
                        deg[v] += 1
        elif kind == "arbitrary":
            for _ in range(total):
                deg[R.randrange(N)] += 1
        else:
            for _ in range(total):
                deg[R.randrange(max(1, N // 3))] += 1
        R.shuffle(deg) if kind != "realisable" else None
        base = dict(mode="sequences", N=N, deg=deg, dim={str(k): v for k, v in sorted(dim.items())}, kind=kind,
                    K=R.randint(1, 3), w=R.choice(["full", "diagonal"]), scale=R.choice([0.05, 1.0, 5.0]),
                    deg_dtype=R.choice(["int", "float"]), allow_rescaling=(j % 4 == 3))
        emit(base, STEPS, 1 if quick else 2)
    # ---- from the model alone
    for j in range(24 if quick else 120):
        N = R.randint(3, 8) if j >= 2 else 2
        base = dict(mode="model", N=N, K=R.randint(1, 3), w=R.choice(["full", "diagonal"]),
                    target=(0.01, 4, 12, 40)[j % 4], max_hye_size=(None, 2, min(3, N), N)[(j // 4) % 4],
                    exact=R.random() < 0.5)
        emit(base, STEPS, 1 if quick else 2)
    # graphs on three nodes with about one expected edge: the drawn configuration often has exactly one hyperedge
    for j in range(2 if quick else 6):
        emit(dict(mode="model", N=3, K=1, w="full", target=1.0, max_hye_size=2, exact=False), [(0, 0)], 12)
    # ---- one sequence given
    for j in range(12 if quick else 60):
        N = R.randint(3, 8)
        E = R.randint(2, 7)
        dim = collections.Counter(R.randint(2, min(N, 5)) for _ in range(E))
        deg = [R.randint(0, 4) for _ in range(N)]
        base = dict(N=N, K=R.randint(1, 3), w=R.choice(["full", "diagonal"]), target=R.choice([6, 20]),
                    exact=bool(j % 2), allow_rescaling=bool((j // 2) % 2))
        steps = [STEPS[(j + k) % 9] for k in range(3)]
        emit(dict(base, mode="deg only", deg=deg), steps, 1)
        emit(dict(base, mode="dim only", dim={str(k): v for k, v in sorted(dim.items())}), steps, 1)
    # a weak model with max_hye_size < N and only the degree sequence given: the model's own size sequence leaves degree
    # over, which the sampler has to use up with extra hyperedges (their sizes must still respect max_hye_size)
    for j in range(8 if quick else 40):
        N = R.randint(10, 14)
        emit(dict(mode="deg only", N=N, K=2, w="diagonal", target=(0.2, 1.0)[j % 2], max_hye_size=(3, 2, 4)[j % 3], exact=False,
                  allow_rescaling=False, deg=[3] * N), [(5, 3)], 2)
    # ---- the SAME conditioning objects (dim_seq dict, deg_seq array, initial hypergraph) for two samplers and for two sample()
    # calls on each ("shared"): both sequences given
    for j in range(36 if quick else 160):
        N = R.randint(2, 12) if j >= 2 else 2
        E = R.randint(2, 9)
        dim = collections.Counter(R.randint(2, min(N, 5)) for _ in range(E))
        total = sum(d * c for d, c in dim.items())
        kind = ("realisable", "realisable", "arbitrary", "concentrated")[j % 4]
        deg = [0] * N
        if kind == "realisable":
            for d, c in sorted(dim.items()):
                for _ in range(c):
                    for v in R.sample(range(N), d):
                        deg[v] += 1
        else:
            for _ in range(total):
                deg[R.randrange(N if kind == "arbitrary" else max(1, N // 3))] += 1
            R.shuffle(deg)
        items = sorted(dim.items(), reverse=bool(j % 2))      # the order of the dict's keys is the caller's choice
        base = dict(mode="sequences", shared=True, N=N, deg=deg, dim={str(k): v for k, v in items}, kind=kind,
                    K=R.randint(1, 3), w=R.choice(["full", "diagonal"]), scale=R.choice([0.05, 1.0, 5.0]),
                    deg_dtype=R.choice(["int", "float"]), allow_rescaling=(j % 5 == 4))
        emit(base, [STEPS[(j + 4 * k) % 9] for k in range(2 if quick else 3)], 1)
    # shared, one sequence given
    for j in range(8 if quick else 48):
        N = R.randint(3, 8)
        dim = collections.Counter(R.randint(2, min(N, 5)) for _ in range(R.randint(2, 7)))
        base = dict(N=N, K=R.randint(1, 3), w=R.choice(["full", "diagonal"]), target=R.choice([6, 20]), exact=bool(j % 2),
                    allow_rescaling=bool((j // 2) % 2), shared=True)
        if j % 2:
            emit(dict(base, mode="dim only", dim={str(k): v for k, v in sorted(dim.items())}), [STEPS[(j + 2) % 9]], 1)
        else:
            emit(dict(base, mode="deg only", deg=[R.randint(0, 4) for _ in range(N)]), [STEPS[(j + 2) % 9]], 1)
    # shared, one initial hypergraph object
    for j in range(20 if quick else 100):
        N = R.randint(3, 9)
        es = set()
        for _ in range(R.randint(2, 8)):
            es.add(tuple(sorted(R.sample(range(N), R.randint(2, min(N, 6))))))
        es = [list(e) for e in sorted(es)]
        if len(es) < 2:
            continue
        covered = {v for e in es for v in e}
        base = dict(mode="initial", shared=True, edges=es, isolated=[v for v in range(N) if v not in covered and R.random() < 0.5],
                    labels=R.choice(["id", "shift", "str"]), K=R.randint(1, 3), w=R.choice(["full", "diagonal"]),
                    scale=R.choice([0.05, 1.0, 5.0]))
        if R.random() < 0.5:
            base["weights"] = [R.randint(1, 5) for _ in es]
        emit(base, [STEPS[(j + 4 * k) % 9] for k in range(2 if quick else 3)], 1)
    # ---- numerical corner of the parameters: memberships of order 1e-7 .. 1e-3 and / or nodes without any membership (zero rows
    # of u) together with LARGE hyperedges (N = 24..30, sizes 6..10, normalisation kappa(size) up to 1e8), possibly next to small
    # ones; the Poisson mean of such a hyperedge is far below double precision, still no hyperedge may be dropped
    for j in range(40 if quick else 240):
        N = R.randint(24, 30)
        if j % 2 == 0:      # pairwise distinct sizes: exact clauses on every sample, whatever the chain did
            sizes = R.sample(range(6, 11), R.randint(2, 5)) + (R.sample(range(2, 6), R.randint(0, 3)) if j % 4 == 0 else [])
        else:
            sizes = [R.randint(6, 10) for _ in range(R.randint(2, 7))] + [R.randint(2, 4) for _ in range(R.randint(0, 3))]
        es = set()
        for d in sizes:
            es.add(tuple(sorted(R.sample(range(N), d))))
        es = [list(e) for e in sorted(es)]
        if len(es) < 2:
            continue
        covered = {v for e in es for v in e}
        corner = ("tiny", "zero rows", "tiny and zero rows", "all rows zero")[(j // 2) % 4 if j % 16 == 15 else (j // 2) % 3]
        base = dict(mode="initial", corner=corner, edges=es, isolated=[v for v in range(N) if v not in covered and R.random() < 0.5],
                    labels=R.choice(["id", "shift", "str"]), K=R.randint(1, 3), w=R.choice(["full", "diagonal"]))
        base["scale"] = R.choice([1e-7, 1e-7, 1e-5, 1e-3]) if "tiny" in corner else R.choice([0.05, 1.0, 5.0])
        if "zero" in corner:
            base["zero_rows"] = sorted(R.sample(range(N), R.randint(N // 2, N - 2))) if corner != "all rows zero" else list(range(N))
        if R.random() < 0.3:
            base["weights"] = [R.randint(1, 5) for _ in es]
        if j % 5 == 0:
            base["shared"] = True
        emit(base, [(0, 0)] + [STEPS[1 + (j + 3 * k) % 8] for k in range(1 if quick else 3)], 1)
    # the same corner with both sequences given: degrees of a random hypergraph with sizes 6..10 on N = 24..30 nodes
    for j in range(10 if quick else 80):
        N = R.randint(24, 30)
        dim = collections.Counter(R.randint(6, 10) for _ in range(R.randint(2, 6)))
        deg = [0] * N
        for d, c in sorted(dim.items()):
            for _ in range(c):
                for v in R.sample(range(N), d):
                    deg[v] += 1
        corner = ("tiny", "zero rows", "tiny and zero rows")[j % 3]
        base = dict(mode="sequences", corner=corner, N=N, deg=deg, dim={str(k): v for k, v in sorted(dim.items())},
                    kind="realisable", K=R.randint(1, 3), w=R.choice(["full", "diagonal"]), deg_dtype=R.choice(["int", "float"]),
                    allow_rescaling=False, shared=(j % 2 == 0))
        base["scale"] = R.choice([1e-7, 1e-5]) if "tiny" in corner else 1.0
        if "zero" in corner:
            base["zero_rows"] = sorted(R.sample(range(N), R.randint(N // 2, N - 2)))
        emit(base, [(0, 0), STEPS[1 + j % 8]], 1)
    return plan


# --------------------------------------------------------------------------------------------------------------
def _workers():
    try:
        n = len(os.sched_getaffinity(0))
    except Exception:
        n = os.cpu_count() or 1
    return max(1, min(12, n - 2))


def run(ctx):
    ctx.rule("one case = one sampler configuration (mode, u, w, burn-in, thinning, seed) run twice (shared: 4 runs), first 5 samples each; "
             "initial hypergraphs: all with >=2 hyperedges on 3 nodes and with 2-3 hyperedges on 4 nodes, then random on <=8 "
             "nodes (labels 0..N-1 / shifted / strings, weighted or not, isolated nodes), max_hye_size default; again with an "
             "explicit max_hye_size below / equal to / above the largest initial hyperedge (all on 3 nodes, all with pairwise "
             "distinct sizes on 4 nodes, random with distinct and with repeated sizes); sequences with equal totals: "
             "realisable / arbitrary / concentrated; model: four parameter scales x max_hye_size x exact_dyadic; one "
             "sequence only; 'shared' cases: one dim_seq dict / deg_seq array / initial hypergraph object handed to two samplers and to "
             "two sample() calls on each, compared with deep copies afterwards; numerical corner: N = 24..30, hyperedges of size "
             "6..10, u of order 1e-7..1e-3 and / or with zero rows. A case is non-trivial if some produced hypergraph has at least two hyperedges.")
    ctx.assume("'no two sampled hyperedges coincided' is observed on the raw configuration yielded by the instance's _mcmc_routine "
               "(wrapped by the driver); fallback when that routine is absent: the sample has as many hyperedges as the conditioning; "
               "for an initial hypergraph whose hyperedges have pairwise distinct sizes the premise is taken to hold always "
               "(sizes are conditioned, so no two sampled hyperedges have the same size)")
    ctx.assume("matching_sequences (public attribute) is trusted to say whether the greedy construction matched")
    ctx.assume("degree of a node = number of produced hyperedges containing it; hyperedges compared as node sets")
    ctx.assume("numpy Generator / scipy.stats.poisson.ppf behave as documented (weights >= 1 from the truncated Poisson)")
    plan = _plan(ctx.quick, ctx.seed)
    _imports()  # before forking, so that the workers share the imported library
    nw = _workers()
    if nw > 1:
        mp = multiprocessing.get_context("fork")
        with mp.Pool(nw) as pool:
            results = pool.map(_case, plan, chunksize=8)
    else:
        results = [_case(c) for c in plan]
    seen = collections.Counter()
    for res in results:
        cfg = res["cfg"]
        ctx.case(cfg, nontrivial=res["nontrivial"])
        ctx.count("cases: " + cfg["mode"])
        if res["raised"]:
            ctx.count("cases that raised: " + cfg["mode"])
        if cfg["mode"] == "initial" and cfg.get("max_hye_size") is not None:
            L = max(len(e) for e in cfg["edges"])
            D = cfg["max_hye_size"]
            ctx.count("cases: initial with explicit max_hye_size %s the largest initial hyperedge" %
                      ("below" if D < L else "equal to" if D == L else "above"))
        if cfg["mode"] == "initial" and len({len(e) for e in cfg["edges"]}) == len(cfg["edges"]):
            ctx.count("cases: initial with hyperedges of pairwise distinct sizes (exact clauses on every sample)")
        if cfg.get("shared"):
            ctx.count("cases: same conditioning objects for two samplers and two sample() calls each (%s)" % cfg["mode"])
        if cfg.get("corner"):
            ctx.count("cases: numerical corner (%s), hyperedges of size 6..10 on 24..30 nodes" % cfg["corner"])
        if cfg["mode"] == "sequences":
            ctx.count("sequences reported as %s (%s)" % ({True: "matching", False: "not matching"}.get(res["matching"], "unknown"),
                                                         cfg["kind"]))
        ctx.count("samples with a coincidence (fewer hyperedges than conditioned)", res["coincided"])
        ctx.count("samples with all conditioned hyperedges distinct", res["full"])
        for clause, n in res["passes"].items():
            total = n + sum(1 for f in res["fails"] if f["clause"] == clause)
            for _ in range(max(total, 1)):
                ctx.clause(f"{FN}:{clause}")
        for f in res["fails"]:
            seen[f["key"]] += 1
            if seen[f["key"]] <= 2:
                ctx.fail(FN, f["clause"], f["input"], f["expected"], f["observed"], key=f["key"],
                         replay=dict(cfg=cfg, key=f["key"]))
            else:
                ctx.count("further failures of " + f["key"])
    ctx.exhaustive_parts.append("initial hypergraphs: every hypergraph with >= 2 hyperedges (sizes >= 2) on 3 nodes%s, each with "
                                "all nine (burn-in, thinning) pairs in {0,1,20}^2" %
                                ("" if ctx.quick else " and every one with 2 or 3 hyperedges on 4 nodes"))
    ctx.exhaustive_parts.append("initial hypergraphs x explicit max_hye_size: every hypergraph with >= 2 hyperedges on 3 nodes with "
                                "max_hye_size 2 and 3 (three (burn-in, thinning) pairs each); every hypergraph on 4 nodes whose >= 2 "
                                "hyperedges have pairwise distinct sizes (58) with max_hye_size 2, 3 and 4 (%s (burn-in, thinning) "
                                "pairs each)" % ("two" if ctx.quick else "all nine"))


def replay(data):
    cfg, key = data.get("cfg"), data.get("key")
    if not cfg:
        return True, "nothing to replay"
    repeats = 40 if cfg["mode"] in ("model", "deg only", "dim only") else 1
    for i in range(repeats):
        res = _case(cfg)
        fails = [f for f in res["fails"] if key is None or f["key"] == key]
        if fails:
            f = fails[0]
            return False, (f"{f['key']} fails (attempt {i + 1}): observed={f['observed']} expected={f['expected']} "
                           f"input={f['input']}")[:1500]
    return True, f"clause {key or '(all)'} holds on this input ({repeats} attempt(s))"
