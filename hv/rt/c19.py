"""C19 - metadata filters keep exactly what the criteria say; SVH p-values follow their definition (bounded).

Scope
-----
filter_hypergraph (filters/metadata_filters.py).  Metadata are drawn from two attributes x three values
("color" in r/g/"" and "kind" in 1/2/0: one falsy value each), each attribute possibly missing (16 metadata dicts); criteria are all 81
dictionaries {attribute -> sublist of its values (the empty list included)} over them, plus None (82 per side).

* A (structures exhaustive): every Hypergraph on nodes 0..n-1, n <= 4, with <= 3 hyperedges of size 1..4 (quick:
  n <= 3 with <= 3 and n = 4 with <= 2), one seeded metadata / weight assignment each, x 8 node criteria x 8
  hyperedge criteria x mode in {keep, remove} x keep_edges in {False, True}; n = 3 once more with string labels.
* B (criteria exhaustive): three fixed 5-node hypergraphs whose items carry all 16 metadata dicts between them;
  all 82 node criteria alone, all 82 hyperedge criteria alone, x mode x keep_edges; all 82 x 82 pairs in thorough
  (a seeded sample of 1500 pairs per hypergraph in quick).
* C (sampled): random hypergraphs (<= 7 nodes, <= 6 hyperedges of size 1..5, int / non-contiguous / string labels,
  weighted or not, an extra irrelevant attribute, isolated nodes), random criteria (also over an attribute nobody
  has), random mode / keep_edges.
* TemporalHypergraph and MultiplexHypergraph: every structure on <= 3 nodes with <= 2 hyperedges of size 1..3 over two
  times / layers (quick: 3 nodes with <= 1) x the 8 x 8 x 2 x 2 family, plus random cases.  Their remove_node / remove_edge are known to be
  broken (TypeError); a filter run that dies there is reported under the key
  "filter_hypergraph[<Class>]:does not raise on admissible input|via <method>".

get_svh (filters/statistical_filters.py), alpha at its default, max_order in {2, 3, 10}, mp=False:

* quick: one representative per isomorphism class (node relabelling) of the hypergraphs on <= 4 nodes with <= 3
  hyperedges of size 1..4, all weight assignments in 1..3, all three max_order.
  thorough, in addition: all labelled ones (13 276 weighted hypergraphs) with max_order 10 and with each max_order in
  {2, 3} that actually excludes a hyperedge; one representative per isomorphism class on 5 nodes with <= 4 hyperedges
  of size 1..5 (654 classes), all weights in 1..3 with max_order 10 and four weightings with max_order 2 and 3
  (the bound only selects the sizes, each size is then treated on its own; one get_svh call costs ~8 ms).
* sampled: random weighted hypergraphs, 3..10 nodes, 1..8 hyperedges, weights up to 20 (heavy weights are needed to
  get any hyperedge validated; in the exhaustive scope nothing can be), int / string labels, also unweighted.
* one mp=True run (thorough only, in the parent process) compared clause by clause like the others.
* large scale (both tiers, mp=False and mp=True): hypergraphs in which the *integer* product of the K_i of a
  hyperedge reaches 2**63 .. 2**66 (and N**n >= 2**63), so that the success probability prod K_i/N only comes out
  right when it is formed in floating point / exact arithmetic:
  - fixed: cyclic designs (all windows of n consecutive nodes on a ring of m) of size 8 / 10 / 12 whose nodes occur
    in >= 250 / 100 / 50 occurrences, each with light size-2 and size-3 hyperedges next to them; one size-4
    hypergraph with a hyperedge of weight 60 000 and light hyperedges sharing 2..3 of its nodes.
  - "dense" (seeded; quick 30, thorough 400): 5..14 distinct random hyperedges of one size n in 8..12 on n+1..2n
    nodes (int / non-contiguous int / string labels), weights grown at random until the product of the K_i of
    some (or of every) hyperedge is >= 2**b, b in {63, 64, 66}; with light hyperedges of sizes 2..3 and 4..7 beside
    them in part of the cases; max_order in {n, 12, 20} (and, rarely, n-1, which excludes the large size).
  - "heavy" (seeded; quick one each of size 4, 5, 6, 7, thorough 40): one hyperedge of size n in 4..7 and weight
    W >= 2**(63/n) (55 109 for n = 4), plus 2..5 hyperedges of weight 1..30 sharing n-1 or n-2 of its nodes (so that
    the p-values are not all 0 or 1), plus light size-2/3 hyperedges.
  - mp=True (parent process): the size-10 cyclic design, 2 dense and 1 heavy case in quick; 30 dense and 4 heavy
    in thorough.
  The oracle for these is the same exact rational tail, evaluated in integers (numerator over the common
  denominator b**N, summing the shorter of the two tails) and cross-checked against the Fraction version on 300
  small arguments at the start of every run; p-values are compared at 1e-12 + 1e-9 * expected (with N up to
  ~60 000 the rounding of prod K_i/N in double precision alone moves the tail by ~1e-12).

Oracle
------
filter: a ghost model of the history (node -> metadata, hyperedge -> (weight, metadata)); an item matches a criteria
dict iff for every attribute of the dict the item has the attribute and its value is in the allowed list (an item
lacking the attribute does not match).  Survivors are computed from the statement; the container is observed through
get_nodes / get_edges / get_weight / get_*_metadata only.
svh: N and K_i are counted from the weighted hyperedge list; the p-value is the exact rational binomial tail
sum_{k>=w} C(N,k) p^k (1-p)^(N-k) with p = prod K_i / N^n (fractions.Fraction), compared at 1e-12 (large-scale
cases: 1e-12 + 1e-9 relative, see above).  The validated set
is recomputed from the *reported* p-values with the step-up rule the module implements and documents (largest i with
p_(i) < i * alpha / C(n_a, n), n_a = number of distinct nodes in the size-n hyperedges, alpha = 0.01); monotonicity
is checked on its own.

Limits
------
* keep_edges=True: when two hyperedges shrink to the same node set, or one shrinks to nothing, the statement does
  not say which weight / metadata survives (nor whether the merged hyperedge passes the hyperedge criteria); those
  identities are left unconstrained (counted), every other hyperedge of the run is still checked.
* DirectedHypergraph is not driven (the property's quantifier names Hypergraph, temporal and multiplex).
* alpha other than the default is outside the statement's quantifier and not exercised (note: the code ignores it).
* criteria whose allowed list contains None (which the code lets match a missing attribute) are not generated.
* get_svc is not covered by the statement.
"""
import itertools
import math
import multiprocessing
import os
import random
import traceback
from fractions import Fraction

PROPERTY = "C19"

RAISES = "does not raise on admissible input"
F_NODES = "surviving nodes = exactly those the node criteria keep"
F_EDGES = "surviving hyperedges = exactly those the criteria keep without a removed node"
F_EDGES_K = "keep_edges: surviving hyperedges = the kept ones shrunk by the removed nodes"
F_NMD = "metadata of surviving nodes unchanged"
F_W = "weights of surviving hyperedges unchanged"
F_EMD = "metadata of surviving hyperedges unchanged"
F_OBS = "survivors observable through the public API after filtering"
S_ROWS = "every hyperedge of size 2..max_order reported exactly once under its size"
S_P = "p-value = P[Binomial(N, prod K_i/N) >= weight]"
S_VAL = "validated = hyperedges with p-value below the step-up threshold"
S_MONO = "no validated hyperedge has a larger p-value than a non-validated one of its size"
S_PURE = "does not modify its argument"

ALPHA = 0.01
NPROC = max(1, min(14, (os.cpu_count() or 2) - 2))


# ----------------------------------------------------------------------------------------------- recorder
class Rec:
    """Collects clause evaluations, explored cases and the first failure per key (merged into ctx by the parent)."""

    def __init__(self):
        self.evals, self.fails, self.nfail, self.counts, self.cases = {}, {}, {}, {}, []

    def check(self, cond, function, clause, input, expected=None, observed=None, key=None, replay=None):
        name = f"{function}:{clause}"
        self.evals[name] = self.evals.get(name, 0) + 1
        if not cond:
            key = key or name
            self.nfail[key] = self.nfail.get(key, 0) + 1
            if key not in self.fails:
                ev = lambda x: x() if callable(x) else x  # noqa: E731  (rendered lazily, on failure only)
                self.fails[key] = dict(function=function, clause=clause, input=ev(input), expected=ev(expected),
                                       observed=ev(observed), key=key,
                                       replay=dict(replay, key=key) if isinstance(replay, dict) else replay)
        return cond

    def count(self, name, n=1):
        self.counts[name] = self.counts.get(name, 0) + n

    def case(self, desc, nontrivial=True):
        self.cases.append((desc, nontrivial))

    def merge(self, other):
        for k, v in other.evals.items():
            self.evals[k] = self.evals.get(k, 0) + v
        for k, v in other.nfail.items():
            self.nfail[k] = self.nfail.get(k, 0) + v
        for k, v in other.counts.items():
            self.counts[k] = self.counts.get(k, 0) + v
        for k, v in other.fails.items():
            self.fails.setdefault(k, v)

    def into(self, ctx):
        for k, v in self.evals.items():
            ctx.contract_evals[k] = ctx.contract_evals.get(k, 0) + v
        for k, v in self.counts.items():
            ctx.count(k, v)
        for k in self.fails:
            f = self.fails[k]
            ctx.count("failed evaluations of " + k, self.nfail[k])
            ctx.fail(f["function"], f["clause"], f["input"], f["expected"], f["observed"], key=f["key"],
                     replay=f["replay"])


_DESC = {}


def _desc(spec):
    """Compact one-line rendering of a spec (cached per object: a spec is shared by many runs)."""
    d = _DESC.get(id(spec))
    if d is None or d[0] is not spec:
        import json
        if len(_DESC) > 4096:
            _DESC.clear()
        d = _DESC[id(spec)] = (spec, json.dumps(spec, sort_keys=True, separators=(",", ":")))
    return d[1]


def _js(x):
    if isinstance(x, (set, frozenset)):
        return sorted((_js(v) for v in x), key=repr)
    if isinstance(x, (list, tuple)):
        return [_js(v) for v in x]
    if isinstance(x, dict):
        return {(k if isinstance(k, str) else repr(_js(k))): _js(v) for k, v in x.items()}
    if isinstance(x, (str, int, float, bool)) or x is None:
        return x
    if hasattr(x, "item"):
        return x.item()
    return repr(x)


# =============================================================================================== filter_hypergraph
COLORS, KINDS = ["r", "g", ""], [1, 2, 0]      # one falsy value per attribute: a value is matched by membership, not by truthiness
MDS = [{k: v for k, v in (("color", c), ("kind", d)) if v is not None} for c in [None] + COLORS for d in [None] + KINDS]


def _sublists(vals):
    return [list(c) for r in range(len(vals) + 1) for c in itertools.combinations(vals, r)]


def all_criteria():
    out = []
    for cs in [None] + _sublists(COLORS):
        for ks in [None] + _sublists(KINDS):
            out.append({k: v for k, v in (("color", cs), ("kind", ks)) if v is not None})
    return out  # 81 dictionaries, {} included


CRITERIA = [None] + all_criteria()
FAMILY = [None, {}, {"color": ["r"]}, {"color": ["r", "g"]}, {"kind": [2]}, {"color": ["g", ""], "kind": [1, 0]},
          {"kind": []}, {"color": ["r", "g", ""], "kind": [0]}]


# spec = dict(cls, weighted, nodes=[[node, metadata]], edges=[[edge, weight, metadata]])
#   edge: Hypergraph [nodes]; TemporalHypergraph [time, [nodes]]; MultiplexHypergraph [[nodes], layer]
def _classes():
    from hypergraphx import Hypergraph, TemporalHypergraph, MultiplexHypergraph
    return dict(Hypergraph=Hypergraph, TemporalHypergraph=TemporalHypergraph, MultiplexHypergraph=MultiplexHypergraph)


def build_f(spec):
    cls = spec["cls"]
    w8 = bool(spec.get("weighted"))
    hg = _classes()[cls](weighted=w8)
    for v, md in spec["nodes"]:
        hg.add_node(v, metadata=dict(md))
    for e, w, md in spec["edges"]:
        w = w if w8 else None
        if cls == "Hypergraph":
            hg.add_edge(tuple(e), weight=w, metadata=dict(md))
        elif cls == "TemporalHypergraph":
            hg.add_edge(tuple(e[1]), e[0], weight=w, metadata=dict(md))
        else:
            hg.add_edge(tuple(e[0]), e[1], weight=w, metadata=dict(md))
    return hg


def ident(cls, e):
    if cls == "Hypergraph":
        return frozenset(e)
    if cls == "TemporalHypergraph":
        return (e[0], frozenset(e[1]))
    return (frozenset(e[0]), e[1])


def members(cls, idt):
    return idt if cls == "Hypergraph" else idt[1] if cls == "TemporalHypergraph" else idt[0]


def with_members(cls, idt, ms):
    return ms if cls == "Hypergraph" else (idt[0], ms) if cls == "TemporalHypergraph" else (ms, idt[1])


def ghost(spec):
    cls = spec["cls"]
    nodes = {v: dict(md) for v, md in spec["nodes"]}
    edges = {}
    for e, w, md in spec["edges"]:
        edges[ident(cls, e)] = (w if spec.get("weighted") else 1, dict(md))
        for v in members(cls, ident(cls, e)):
            nodes.setdefault(v, {})
    return nodes, edges


def observe(cls, hg):
    """(node -> metadata, hyperedge identity -> (weight, metadata)) as the container reports them."""
    nl = list(hg.get_nodes())
    if cls == "MultiplexHypergraph":
        allmd = hg.get_nodes(metadata=True)
        nodes = {v: allmd[v] for v in nl}
    else:
        nodes = {v: hg.get_node_metadata(v) for v in nl}
    el = list(hg.get_edges())
    edges = {}
    for e in el:
        if cls == "Hypergraph":
            edges[frozenset(e)] = (hg.get_weight(e), hg.get_edge_metadata(e))
        elif cls == "TemporalHypergraph":
            edges[(e[0], frozenset(e[1]))] = (hg.get_weight(e[1], e[0]), hg.get_edge_metadata(e[1], e[0]))
        else:
            edges[(frozenset(e[0]), e[1])] = (hg.get_weight(e[0], e[1]), hg.get_edge_metadata(e[0], e[1]))
    if len(nodes) != len(nl) or len(edges) != len(el):
        raise ValueError("get_nodes/get_edges list an item twice")
    return nodes, edges


def matches(md, crit):
    return all(a in md and md[a] in allowed for a, allowed in crit.items())


def expected_survivors(cls, nodes, edges, nc, ec, mode, keep):
    """The statement, executed on the ghost model.  Returns (nodes, hyperedges, ambiguous identities): with
    keep_edges the identities onto which two hyperedges collapse, and the empty one, are left unconstrained."""
    want = mode == "keep"
    removed = set() if nc is None else {v for v, md in nodes.items() if matches(md, nc) != want}
    surv_nodes = {v: md for v, md in nodes.items() if v not in removed}
    out, ambiguous = {}, set()
    for idt, (w, md) in edges.items():
        ms = members(cls, idt)
        if ms & removed:
            if not keep:
                continue
            idt = with_members(cls, idt, ms - removed)
            if not ms - removed:
                ambiguous.add(idt)  # shrinks to nothing: the statement does not say what becomes of it
        if idt in out:
            ambiguous.add(idt)  # two hyperedges collapse: the statement does not say whose weight/metadata wins
        out[idt] = (w, md)
    for idt in ambiguous:
        out.pop(idt, None)
    if ec is not None:
        out = {idt: wm for idt, wm in out.items() if matches(wm[1], ec) == want}
    return surv_nodes, out, ambiguous


def fn_filter(cls):
    return "filter_hypergraph" if cls == "Hypergraph" else f"filter_hypergraph[{cls}]"


def _via(ex):
    """Names the container method at which a filter run died: the first frame below filter_hypergraph, or
    '<callee> call' when filter_hypergraph's own call was rejected for its arity."""
    import re
    names = [f.name for f in traceback.extract_tb(ex.__traceback__)]
    if "filter_hypergraph" in names:
        i = names.index("filter_hypergraph")
        if i + 1 < len(names):
            return names[i + 1]
        m = re.search(r"(\w+)\(\) (missing|takes|got)", str(ex)) if isinstance(ex, TypeError) else None
        return f"{m.group(1)} call" if m else "filter_hypergraph"
    return names[-1] if names else "?"


def check_filter(rec, spec, nc, ec, mode, keep, register=True):
    from hypergraphx.filters.metadata_filters import filter_hypergraph
    import copy
    cls = spec["cls"]
    fn = fn_filter(cls)
    rp = dict(kind="filter", spec=spec, node_criteria=nc, edge_criteria=ec, mode=mode, keep_edges=keep)
    inp = lambda: dict(spec=spec, node_criteria=nc, edge_criteria=ec, mode=mode, keep_edges=keep)  # noqa: E731
    if register:
        rec.case(f"filter {_desc(spec)} nc={nc} ec={ec} {mode} keep_edges={keep}",
                 nontrivial=bool(spec["edges"]) and (nc is not None or ec is not None))
    nodes, edges = ghost(spec)
    try:
        hg = build_f(spec)
        seen = observe(cls, hg)
    except Exception as ex:
        rec.count(f"filter: skipped, history rejected by {cls} ({type(ex).__name__})")
        return
    if seen != (nodes, edges):
        rec.count(f"filter: skipped, {cls} disagrees with the ghost model before filtering (C01-C04 domain)")
        return
    try:
        filter_hypergraph(hg, node_criteria=copy.deepcopy(nc), edge_criteria=copy.deepcopy(ec), mode=mode,
                          keep_edges=keep)
    except Exception as ex:
        via = _via(ex)
        msg = f"{type(ex).__name__}: {ex}"
        rec.check(False, fn, RAISES, inp, None, msg + f" (raised in {via})", key=f"{fn}:{RAISES}|via {via}", replay=rp)
        return
    rec.check(True, fn, RAISES, None)
    exp_nodes, exp_edges, ambiguous = expected_survivors(cls, nodes, edges, nc, ec, mode, keep)
    try:
        got_nodes, got_edges = observe(cls, hg)
    except Exception as ex:
        rec.check(False, fn, F_OBS, inp, None, f"{type(ex).__name__}: {ex}", replay=rp)
        return
    rec.check(True, fn, F_OBS, None)
    rec.check(set(got_nodes) == set(exp_nodes), fn, F_NODES, inp, lambda: _js(set(exp_nodes)),
              lambda: _js(set(got_nodes)), replay=rp)
    common = [v for v in got_nodes if v in exp_nodes]
    rec.check(all(got_nodes[v] == exp_nodes[v] for v in common), fn, F_NMD, inp,
              lambda: _js({repr(v): exp_nodes[v] for v in common}), lambda: _js({repr(v): got_nodes[v] for v in common}),
              replay=rp)
    if ambiguous:
        rec.count("filter: keep_edges runs with collapsing / vanishing hyperedges (those identities left unconstrained)")
        got_edges = {e: wm for e, wm in got_edges.items() if e not in ambiguous}
    clause = F_EDGES_K if keep else F_EDGES
    rec.check(set(got_edges) == set(exp_edges), fn, clause, inp, lambda: _js(set(exp_edges)),
              lambda: _js(set(got_edges)), replay=rp)
    both = [e for e in got_edges if e in exp_edges]
    rec.check(all(got_edges[e][0] == exp_edges[e][0] for e in both), fn, F_W, inp,
              lambda: _js({repr(_js(e)): exp_edges[e][0] for e in both}),
              lambda: _js({repr(_js(e)): got_edges[e][0] for e in both}), replay=rp)
    rec.check(all(got_edges[e][1] == exp_edges[e][1] for e in both), fn, F_EMD, inp,
              lambda: _js({repr(_js(e)): exp_edges[e][1] for e in both}),
              lambda: _js({repr(_js(e)): got_edges[e][1] for e in both}), replay=rp)
    if len(got_nodes) < len(nodes) or len(got_edges) < len(edges):
        rec.count("filter: runs that removed something")


# ---- generation
def _edge_pool(n, max_size):
    return [list(c) for s in range(1, min(max_size, n) + 1) for c in itertools.combinations(range(n), s)]


def structures(cls, n, max_edges):
    if cls == "Hypergraph":
        pool = _edge_pool(n, 4)
    elif cls == "TemporalHypergraph":
        pool = [[t, e] for t in (0, 1) for e in _edge_pool(n, 3)]
    else:
        pool = [[e, lay] for lay in ("a", "b") for e in _edge_pool(n, 3)]
    for m in range(0, max_edges + 1):
        for es in itertools.combinations(pool, m):
            yield n, list(es)


def decorate(rng, cls, n, es, labels=None, mds=MDS):
    lab = labels or list(range(n))
    weighted = rng.random() < 0.5

    def relabel(e):
        if cls == "Hypergraph":
            return [lab[i] for i in e]
        if cls == "TemporalHypergraph":
            return [e[0], [lab[i] for i in e[1]]]
        return [[lab[i] for i in e[0]], e[1]]

    return dict(cls=cls, weighted=weighted, nodes=[[lab[i], dict(rng.choice(mds))] for i in range(n)],
                edges=[[relabel(e), rng.randint(1, 3), dict(rng.choice(mds))] for e in es])


def fixed_specs():
    """Three 5-node hypergraphs whose nodes and hyperedges carry all 16 metadata dicts between them."""
    shapes = [
        [[0, 1], [1, 2, 3], [0, 2, 3, 4], [4], [2, 4], [0, 3]],
        [[0, 1, 2], [2, 3], [3, 4], [0, 4], [1], [1, 3, 4]],
        [[0, 1, 2, 3], [0, 1], [2, 3], [1, 2, 4], [3], [0, 4]],
    ]
    out = []
    for k, es in enumerate(shapes):
        nodes = [[i, dict(MDS[(5 * k + 3 * i + 1) % 16])] for i in range(5)]
        edges = [[e, 1 + (j + k) % 3, dict(MDS[(6 * k + 5 * j + 2) % 16])] for j, e in enumerate(es)]
        out.append(dict(cls="Hypergraph", weighted=k != 1, nodes=nodes, edges=edges))
    return out


def random_filter_case(rng, cls):
    n = rng.randint(1, 7)
    kind = rng.choice(["0..n-1", "ints", "str"])
    labels = (list(range(n)) if kind == "0..n-1" else rng.sample(range(-3, 60), n) if kind == "ints" else
              rng.sample(["a", "b", "c", "d", "aa", "B", "z1", "10", "2", "node", "x y"], n))
    mds = [dict(m, note=rng.choice(["x", "y"])) if rng.random() < 0.3 else m for m in MDS]
    seen, es = set(), []
    for _ in range(rng.randint(0, 6)):
        s = min(n, rng.choice([1, 2, 2, 2, 3, 3, 4, 5]))
        ms = sorted(rng.sample(range(n), s))
        e = ms if cls == "Hypergraph" else [rng.randint(0, 2), ms] if cls == "TemporalHypergraph" else \
            [ms, rng.choice(["a", "b"])]
        if repr(e) not in seen:
            seen.add(repr(e))
            es.append(e)
    spec = decorate(rng, cls, n, es, labels=labels, mds=mds)
    spec["labels"] = kind

    def crit():
        r = rng.random()
        if r < 0.15:
            return None
        c = dict(rng.choice(CRITERIA[1:]))
        if rng.random() < 0.1:
            c["absent"] = ["x"]
        if rng.random() < 0.1:
            c["note"] = ["x"]
        return c

    return spec, crit(), crit(), rng.choice(["keep", "remove"]), rng.random() < 0.5


# =============================================================================================== get_svh
# spec = dict(weighted, edges=[[nodes, weight]])
def build_s(spec):
    from hypergraphx import Hypergraph
    hg = Hypergraph(weighted=bool(spec["weighted"]))
    for e, w in spec["edges"]:
        hg.add_edge(tuple(e), weight=w if spec["weighted"] else None)
    return hg


def snapshot_s(hg):
    edges = list(hg.get_edges())
    return list(hg.get_nodes()), edges, [hg.get_weight(e) for e in edges], hg.is_weighted()


def binom_tail(w, N, p):
    """P[Binomial(N, p) >= w], exact in rationals."""
    q = 1 - p
    return sum(math.comb(N, k) * p ** k * q ** (N - k) for k in range(w, N + 1))


def binom_tail_int(w, N, p):
    """P[Binomial(N, p) >= w] for a Fraction p, exact: (numerator, denominator) with denominator = p.denominator**N.
    Terms T_k = C(N,k) a^k c^(N-k) (p = a/b, c = b-a) are obtained from their neighbours by exact integer
    division; the shorter of the two tails is summed (cost ~ min(w, N-w+1) operations on N*log2(b)-bit integers)."""
    a, b = p.numerator, p.denominator
    c = b - a
    if w <= 0 or (c == 0 and w <= N):
        return 1, 1
    if w > N:
        return 0, 1
    den = b ** N
    s = 0
    if w <= N - w + 1:  # 1 - sum_{k<w}
        t = c ** N
        for k in range(w):
            s += t
            t = t * (N - k) * a // ((k + 1) * c)  # exact: C(N,k)(N-k) = C(N,k+1)(k+1), and N-k >= 1 factors c remain
        return den - s, den
    t = a ** N
    for k in range(N, w - 1, -1):  # sum_{k>=w}, from the top
        s += t
        t = t * k * c // ((N - k + 1) * a)  # exact: C(N,k) k = C(N,k-1)(N-k+1)
    return s, den


def selfcheck_tail(seed):
    """The integer evaluation agrees with the Fraction one on small arguments (exact equality)."""
    rng = random.Random(seed)
    for _ in range(300):
        N = rng.randint(1, 30)
        w = rng.randint(0, N + 1)
        d = rng.randint(1, 40)
        p = Fraction(rng.randint(1, d), d)
        if Fraction(*binom_tail_int(w, N, p)) != binom_tail(max(w, 0), N, p):
            raise AssertionError(f"binom_tail_int({w}, {N}, {p}) disagrees with binom_tail")


def svh_oracle(edges, max_order, large=False, stats=None):
    """{size: {hyperedge: p-value}} for the sizes 2..max_order that occur.  stats (optional dict) receives the number
    of hyperedges whose integer product of the K_i is >= 2**63."""
    out = {}
    for n in sorted({len(e) for e in edges}):
        if not 2 <= n <= max_order:
            continue
        sized = {e: w for e, w in edges.items() if len(e) == n}
        N = sum(sized.values())
        K = {}
        for e, w in sized.items():
            for v in e:
                K[v] = K.get(v, 0) + w
        out[n] = {}
        for e, w in sized.items():
            p = Fraction(1)
            prod = 1
            for v in e:
                p *= Fraction(K[v], N)
                prod *= K[v]
            if stats is not None and prod >= 2 ** 63:
                stats["big"] = stats.get("big", 0) + 1
            if large:
                num, den = binom_tail_int(w, N, p)
                out[n][e] = num / den  # int / int: correctly rounded whatever the operands' size
            else:
                out[n][e] = float(binom_tail(w, N, p))
    return out


def check_svh(rec, spec, max_order, mp=False, register=True):
    from hypergraphx.filters.statistical_filters import get_svh
    fn = "get_svh"
    rp = dict(kind="svh", spec=spec, max_order=max_order, mp=mp)
    inp = lambda: dict(spec=spec, max_order=max_order, mp=mp)  # noqa: E731
    edges = {}
    for e, w in spec["edges"]:
        edges[frozenset(e)] = edges.get(frozenset(e), 0) + (w if spec["weighted"] else 1)
    if not spec["weighted"]:
        edges = {e: 1 for e in edges}
    large = spec.get("scale") == "large"
    stats = {}
    oracle = svh_oracle(edges, max_order, large=large, stats=stats)
    if register:
        rec.case(f"svh {_desc(spec)} max_order={max_order} mp={mp}", nontrivial=bool(oracle))
        if stats.get("big"):
            rec.count("svh: runs with a tested hyperedge whose integer product of the K_i is >= 2**63"
                      + (" (mp=True)" if mp else ""))
            rec.count("svh: tested hyperedges whose integer product of the K_i is >= 2**63", stats["big"])
    try:
        hg = build_s(spec)
        before = snapshot_s(hg)
        if {frozenset(e): w for e, w in zip(before[1], before[2])} != edges:
            raise ValueError("container disagrees with ghost")
    except Exception as ex:
        rec.count(f"svh: skipped, history rejected or misrepresented by Hypergraph ({type(ex).__name__})")
        return
    try:
        out = get_svh(hg, max_order=max_order, mp=mp)
        tables = {}
        for k, df in out.items():
            tables[int(k)] = list(zip([tuple(e) for e in df["edge"].tolist()], [float(p) for p in df["pvalue"].tolist()],
                                      [bool(f) for f in df["fdr"].tolist()]))
    except Exception as ex:
        rec.check(False, fn, RAISES, inp, None, f"{type(ex).__name__}: {ex}", replay=rp)
        return
    rec.check(True, fn, RAISES, None)
    rec.check(snapshot_s(hg) == before, fn, S_PURE, inp, lambda: _js(before), lambda: _js(snapshot_s(hg)), replay=rp)
    shown = lambda: {str(k): [[_js(e), p, f] for e, p, f in rows] for k, rows in tables.items()}  # noqa: E731
    rows_ok = all(n in tables and len(tables[n]) == len(ps) and all(len(e) == n for e, _, _ in tables[n])
                  and {frozenset(e) for e, _, _ in tables[n]} == set(ps) for n, ps in oracle.items())
    rec.check(rows_ok, fn, S_ROWS, inp, lambda: {str(n): _js(set(ps)) for n, ps in oracle.items()}, shown, replay=rp)
    if not rows_ok:
        return
    rel = 1e-9 if large else 0.0
    bad_p = [(n, e, p, oracle[n][frozenset(e)]) for n in oracle for e, p, _ in tables[n]
             if not abs(p - oracle[n][frozenset(e)]) <= 1e-12 + rel * oracle[n][frozenset(e)]]
    rec.check(not bad_p, fn, S_P, inp, lambda: [[n, _js(e), x] for n, e, _, x in bad_p],
              lambda: [[n, _js(e), p] for n, e, p, _ in bad_p], replay=rp)
    any_val = False
    for n in oracle:
        rows = tables[n]
        val = [p for _, p, f in rows if f]
        non = [p for _, p, f in rows if not f]
        rec.check(not val or not non or max(val) <= min(non), fn, S_MONO, lambda: dict(inp(), size=n),
                  None, lambda: [[_js(e), p, f] for e, p, f in rows], replay=rp)
        any_val = any_val or bool(val)
        if val and non:
            rec.count("svh: sizes with both validated and non-validated hyperedges")
        # step-up threshold from the reported p-values
        n_a = len(set().union(*[set(e) for e, _, _ in rows]))
        bonf = ALPHA / math.comb(n_a, n)
        ps = sorted(p for _, p, _ in rows)
        ks = [(i + 1) * bonf for i in range(len(ps))]
        if any(abs(p - k) <= 1e-9 * k for p in ps for k in ks):
            rec.count("svh: sizes skipped for the validated-set clause (p-value within rounding of a threshold)")
            continue
        below = [k for p, k in zip(ps, ks) if p < k]
        thr = below[-1] if below else 0.0
        exp = {frozenset(e): p < thr for e, p, _ in rows}
        got = {frozenset(e): f for e, _, f in rows}
        rec.check(exp == got, fn, S_VAL, lambda: dict(inp(), size=n, threshold=thr),
                  lambda: _js({repr(_js(e)): v for e, v in exp.items()}),
                  lambda: [[_js(e), p, f] for e, p, f in rows], replay=rp)
    if any_val:
        rec.count("svh: cases with at least one validated hyperedge")


# ---- generation
def canonical(es, n):
    """Is the edge set (tuple of sorted tuples over 0..n-1) the least of its orbit under node relabelling?"""
    me = tuple(sorted(es))
    for perm in itertools.permutations(range(n)):
        img = tuple(sorted(tuple(sorted(perm[v] for v in e)) for e in es))
        if img < me:
            return False
    return True


def svh_structures(n, max_edges, max_size, iso, plan):
    pool = [c for s in range(1, min(max_size, n) + 1) for c in itertools.combinations(range(n), s)]
    for m in range(0, max_edges + 1):
        for es in itertools.combinations(pool, m):
            yield (n, es, iso, plan)


def svh_plan(es, plan):
    """(weighted spec, max_order) runs of one structure.
    full:    every weighting in 1..3 x max_order in {2, 3, 10}
    binding: every weighting x {10} + those of {2, 3} that exclude a hyperedge of the structure
    ten:     every weighting x {10}; the constant weightings and (1,2,3,1,..) x {2, 3}"""
    sizes = {len(e) for e in es}
    few = {(1,) * len(es), (2,) * len(es), (3,) * len(es), tuple(1 + i % 3 for i in range(len(es)))}
    for spec in weightings(es):
        ws = tuple(w for _, w in spec["edges"])
        for mo in (2, 3, 10):
            if plan == "binding" and mo != 10 and not any(sz > mo for sz in sizes):
                continue
            if plan == "ten" and mo != 10 and ws not in few:
                continue
            yield spec, mo


def weightings(es):
    for ws in itertools.product((1, 2, 3), repeat=len(es)):
        yield dict(weighted=True, edges=[[list(e), w] for e, w in zip(es, ws)])


def random_svh_spec(rng):
    n = rng.randint(3, 10)
    kind = rng.choice(["0..n-1", "ints", "str"])
    labels = (list(range(n)) if kind == "0..n-1" else rng.sample(range(-3, 60), n) if kind == "ints" else
              rng.sample(["a", "b", "c", "d", "aa", "B", "z1", "10", "2", "node", "x y", "q"], n))
    weighted = rng.random() < 0.85
    heavy = rng.random() < 0.6
    seen, es = set(), []
    for _ in range(rng.randint(1, 8)):
        s = min(n, rng.choice([1, 2, 2, 2, 2, 3, 3, 3, 4, 5]))
        ms = tuple(sorted(rng.sample(labels, s), key=repr))
        if ms in seen:
            continue
        seen.add(ms)
        w = rng.randint(1, 3) if not heavy or rng.random() < 0.4 else rng.randint(5, 20)
        es.append([list(ms), w])
    return dict(weighted=weighted, edges=es, labels=kind)


# ---- large scale: the integer product of the K_i reaches 2**63
def _labels(rng, m):
    kind = rng.choice(["0..n-1", "ints", "str"])
    return kind, (list(range(m)) if kind == "0..n-1" else sorted(rng.sample(range(-5, 400), m)) if kind == "ints"
                  else [f"v{i:02d}" for i in rng.sample(range(100), m)])


def _products(es):
    """[prod K_i] per hyperedge of a list [[nodes, weight]] all of one size."""
    K = {}
    for e, w in es:
        for v in e:
            K[v] = K.get(v, 0) + w
    return [math.prod(K[v] for v in e) for e, _ in es]


def _side(rng, labels, sizes, count, wmax):
    """A few light hyperedges of the given sizes."""
    seen, out = set(), []
    for _ in range(count):
        s = min(len(labels), rng.choice(sizes))
        ms = tuple(sorted(rng.sample(labels, s), key=repr))
        if ms not in seen:
            seen.add(ms)
            out.append([list(ms), rng.randint(1, wmax)])
    return out


def cyclic_spec(n, m, weights, side):
    """All m windows of n consecutive nodes on a ring of m nodes, window i weighing weights[i % len(weights)]."""
    es = [[sorted((i + j) % m for j in range(n)), weights[i % len(weights)]] for i in range(m)]
    return dict(weighted=True, scale="large", design=f"cyclic {n}/{m}", edges=es + side)


def dense_spec(rng):
    n = rng.choice([8, 9, 10, 11, 12])
    m = n + rng.randint(1, n)
    kind, labels = _labels(rng, m)
    count = min(rng.randint(5, 14), math.comb(m, n))
    seen = set()
    while len(seen) < count:
        seen.add(tuple(sorted(rng.sample(labels, n), key=repr)))
    es = [[list(e), rng.randint(1, 6)] for e in sorted(seen, key=repr)]
    bits = rng.choice([63, 63, 64, 66])
    which = rng.choice(["some", "every"])
    agg = max if which == "some" else min
    while agg(_products(es)) < 2 ** bits:
        es[rng.randrange(len(es))][1] += rng.randint(1, 4)
    side = []
    if rng.random() < 0.6:
        side += _side(rng, labels, [2, 2, 3], rng.randint(2, 5), 12)
    if rng.random() < 0.25:
        side += _side(rng, labels, [4, 5, 6, 7], rng.randint(2, 4), 9)
    r = rng.random()
    mo = n - 1 if r < 0.05 else rng.choice([n, max(n, 12), 20])
    spec = dict(weighted=True, scale="large", design=f"dense size {n}, prod K_i of {which} hyperedge >= 2**{bits}",
                labels=kind, edges=es + side)
    return spec, mo


def heavy_spec(rng, n=None):
    n = n or rng.choice([4, 5, 5, 6, 6, 7, 7, 7])
    base = math.ceil(2 ** (63 / n))
    W = 60000 if n == 4 and rng.random() < 0.3 else base + rng.randint(0, base // 10)
    out_n = rng.randint(1, 3)
    kind, labels = _labels(rng, n + out_n)
    rng.shuffle(labels)
    core, outside = labels[:n], labels[n:]
    es, seen = [[sorted(core, key=repr), W]], {tuple(sorted(core, key=repr))}
    for _ in range(rng.randint(2, 5)):
        drop = rng.randint(1, min(2, len(outside)))
        ms = tuple(sorted(rng.sample(core, n - drop) + rng.sample(outside, drop), key=repr))
        if ms not in seen:
            seen.add(ms)
            es.append([list(ms), rng.randint(1, 30)])
    side = _side(rng, labels, [2, 2, 3], rng.randint(0, 4), 12)
    spec = dict(weighted=True, scale="large", design=f"heavy size {n}, one hyperedge of weight {W} >= 2**(63/{n})",
                labels=kind, edges=es + side)
    return spec, rng.choice([n, 10, 10])


def fixed_large():
    side = [[[0, 1], 3], [[1, 2], 1], [[2, 3], 7], [[0, 4], 2], [[5, 6], 4], [[0, 1, 2], 1], [[1, 2, 3], 5],
            [[2, 3, 4], 3], [[0, 3, 4], 9]]
    return [
        (cyclic_spec(10, 16, [8, 11, 14, 10, 13, 9, 12], side), 10),
        (cyclic_spec(8, 12, [30, 37, 33, 41, 35], side), 10),
        (cyclic_spec(12, 18, [3, 6, 4, 5, 7], side), 12),
        (dict(weighted=True, scale="large", design="heavy size 4, weight 60000",
              edges=[[[0, 1, 2, 3], 60000], [[0, 1, 2, 4], 7], [[1, 2, 3, 5], 9], [[0, 2, 3, 6], 11], [[0, 1, 4, 6], 5],
                     [[0, 1], 2], [[4, 5], 3], [[1, 2, 6], 4]]), 10),
    ]


# =============================================================================================== driver
def _work(job):
    kind = job[0]
    rec = Rec()
    if kind == "family":  # every structure x FAMILY x FAMILY x mode x keep_edges
        for spec in job[1]:
            for nc in FAMILY:
                for ec in FAMILY:
                    for mode in ("keep", "remove"):
                        for keep in (False, True):
                            check_filter(rec, spec, nc, ec, mode, keep)
    elif kind == "runs":  # explicit (spec, nc, ec, mode, keep) runs
        for spec, nc, ec, mode, keep in job[1]:
            check_filter(rec, spec, nc, ec, mode, keep)
    elif kind == "svh-struct":  # (n, edge set, iso) x all weightings x max_orders
        for n, es, iso, plan in job[1]:
            if iso and not canonical(es, n):
                continue
            rec.count(f"svh: structures on {n} nodes enumerated" + (" (isomorphism class representatives)" if iso else ""))
            for spec, mo in svh_plan(es, plan):
                check_svh(rec, spec, mo)
    elif kind == "svh-runs":
        for spec, mo in job[1]:
            check_svh(rec, spec, mo)
    return rec


def _run(ctx, total, kind, items, chunk):
    items = list(items)
    jobs = [(kind, items[i:i + chunk]) for i in range(0, len(items), chunk)]

    def absorb(rec):
        for desc, nt in rec.cases:
            ctx.case(desc, nontrivial=nt)
        total.merge(rec)

    if NPROC > 1 and len(jobs) > 1:
        with multiprocessing.get_context("fork").Pool(NPROC) as pool:
            for rec in pool.imap(_work, jobs):
                absorb(rec)
    else:
        for j in jobs:
            absorb(_work(j))
    return len(items)


def run(ctx):
    from hv import common
    common.use_repo()
    import numpy as np
    import hypergraphx.filters.metadata_filters  # noqa: F401  (imported before forking)
    import hypergraphx.filters.statistical_filters  # noqa: F401
    random.seed(ctx.seed)
    np.random.seed(ctx.seed % (2 ** 32))
    q = ctx.quick
    ctx.rule("filter case = (hypergraph with metadata, node criteria, hyperedge criteria, mode, keep_edges); "
             "non-trivial = the hypergraph has a hyperedge and at least one criteria dict is given")
    ctx.rule("svh case = (weighted hypergraph, max_order); non-trivial = at least one hyperedge of size 2..max_order")
    ctx.assume("an item lacking an attribute named by a criteria dict does not match it (criteria never allow None)")
    ctx.assume("keep_edges=True: the statement is silent when hyperedges collapse onto each other or shrink to "
               "nothing; those hyperedge identities are left unconstrained, everything else is checked")
    ctx.assume("exact rational binomial tail converted to float vs. scipy's binom.sf: absolute tolerance 1e-12")
    ctx.assume("multiple-testing threshold = step-up rule over i*alpha/C(n_a, n) (n_a distinct nodes in the size-n "
               "hyperedges, alpha = 0.01 default) as implemented and documented by the module, recomputed from the "
               "reported p-values; sizes with a p-value within 1e-9 (relative) of a threshold are skipped for that clause")
    total = Rec()
    rng = random.Random(ctx.seed * 7919 + 19)

    # ---- filter A: structures exhaustive x criteria family
    n = 0
    for k, m in ((1, 3), (2, 3), (3, 3), (4, 2 if q else 3)):
        n += _run(ctx, total, "family", [decorate(rng, "Hypergraph", *s) for s in structures("Hypergraph", k, m)], 8)
    ctx.exhaustive_parts.append(
        f"filter_hypergraph/Hypergraph: all structures on n<=3 nodes with <=3 hyperedges and n=4 with <={2 if q else 3} "
        f"(size 1..4; {n} structures, one seeded metadata/weight assignment each) x {len(FAMILY)} node criteria x "
        f"{len(FAMILY)} hyperedge criteria x 2 modes x 2 keep_edges")
    strs = ["a", "b", "c", "d"]
    _run(ctx, total, "family", [decorate(rng, "Hypergraph", *s, labels=strs) for s in structures("Hypergraph", 3, 3)], 8)
    # ---- filter B: criteria exhaustive on fixed hypergraphs
    runs = []
    fixed = fixed_specs()
    for spec in fixed:
        for mode in ("keep", "remove"):
            for keep in (False, True):
                runs += [(spec, c, None, mode, keep) for c in CRITERIA[1:]]
                runs += [(spec, None, c, mode, keep) for c in CRITERIA]
        pairs = [(a, b) for a in CRITERIA[1:] for b in CRITERIA[1:]]
        if q:
            pairs = rng.sample(pairs, 1500)
        for a, b in pairs:
            for mode in ("keep", "remove"):
                for keep in (False, True):
                    runs.append((spec, a, b, mode, keep))
    _run(ctx, total, "runs", runs, 512)
    ctx.exhaustive_parts.append(
        f"filter_hypergraph/Hypergraph: 3 fixed 5-node hypergraphs x all {len(CRITERIA)} node criteria alone and all "
        f"{len(CRITERIA)} hyperedge criteria alone x 2 modes x 2 keep_edges"
        + ("" if q else "; all 81 x 81 pairs of criteria dicts x 2 x 2"))
    # ---- filter, temporal / multiplex
    for cls in ("TemporalHypergraph", "MultiplexHypergraph"):
        n = 0
        for k in (1, 2, 3):
            n += _run(ctx, total, "family", [decorate(rng, cls, *s) for s in structures(cls, k, 1 if q and k == 3 else 2)], 8)
        ctx.exhaustive_parts.append(f"filter_hypergraph/{cls}: all structures on <=3 nodes with <=2 hyperedges "
                                    f"({'n=3: <=1; ' if q else ''}size 1..3, two "
                                    f"{'times' if cls[0] == 'T' else 'layers'}; {n}) x the 8 x 8 x 2 x 2 family")
    # ---- filter C: random
    for cls, cnt in (("Hypergraph", 3000 if q else 60000), ("TemporalHypergraph", 500 if q else 6000),
                     ("MultiplexHypergraph", 500 if q else 6000)):
        _run(ctx, total, "runs", [random_filter_case(rng, cls) for _ in range(cnt)], 256)
        ctx.count(f"filter: random {cls} runs", cnt)

    # ---- svh exhaustive
    _run(ctx, total, "svh-struct", svh_structures(4, 3, 4, True, "full"), 16)
    ctx.exhaustive_parts.append("get_svh: one representative per isomorphism class of the hypergraphs on <=4 nodes "
                                "with <=3 hyperedges of size 1..4 x all weights in 1..3 x max_order in {2,3,10}")
    if not q:
        _run(ctx, total, "svh-struct", svh_structures(4, 3, 4, False, "binding"), 8)
        ctx.exhaustive_parts.append("get_svh: all labelled hypergraphs on <=4 nodes with <=3 hyperedges of size 1..4 x "
                                    "all weights in 1..3 x max_order 10 and every max_order in {2,3} that excludes one "
                                    "of the hyperedges")
        _run(ctx, total, "svh-struct", svh_structures(5, 4, 5, True, "ten"), 64)
        ctx.exhaustive_parts.append("get_svh: one representative per isomorphism class of the hypergraphs on 5 nodes "
                                    "with <=4 hyperedges of size 1..5 x all weights in 1..3 x max_order 10 (max_order "
                                    "2 and 3 with the constant weightings and 1,2,3,1 only)")
    # ---- svh random
    cnt = 1200 if q else 15000
    _run(ctx, total, "svh-runs", [(random_svh_spec(rng), rng.choice([2, 3, 10])) for _ in range(cnt)], 64)
    ctx.count("svh: random runs", cnt)
    ctx.rule("random svh cases: 3..10 nodes, 1..8 distinct hyperedges of size 1..5, weights 1..3 or (60% of the cases) "
             "mostly 5..20 so that some hyperedges get validated, 15% unweighted, int / string labels")
    # ---- svh large scale: integer product of the K_i >= 2**63 (heavy cases first: they cost seconds each)
    selfcheck_tail(ctx.seed)
    fixed = fixed_large()
    heavy = [heavy_spec(rng, n) for n in (4, 5, 6, 7)] if q else [heavy_spec(rng) for _ in range(40)]
    dense = [dense_spec(rng) for _ in range(30 if q else 400)]
    _run(ctx, total, "svh-runs", [fixed[-1]] + heavy + fixed[:-1] + dense, 1 if q else 2)
    ctx.count("svh: large-scale runs (mp=False)", len(fixed) + len(heavy) + len(dense))
    ctx.rule("large-scale svh cases: hyperedges of size 8..12 whose nodes occur in ~40..300 occurrences of that size "
             "(cyclic designs; random 'dense' designs with weights grown until prod K_i of some / every hyperedge is "
             ">= 2**63, 2**64 or 2**66), and 'heavy' cases of size 4..7 with one hyperedge of weight >= 2**(63/size) "
             "next to light hyperedges sharing most of its nodes; light size-2/3 hyperedges beside them")
    ctx.assume("large-scale svh cases: p-values compared at 1e-12 absolute + 1e-9 relative (rounding of prod K_i/N in "
               "double precision is amplified by N <= ~60 000 in the binomial tail)")
    big = Rec()
    mp_runs = [fixed[0]] + (dense[:2] + heavy[1:2] if q else dense[:30] + heavy[:4])
    for spec, mo in mp_runs:
        check_svh(big, spec, mo, mp=True)
    for desc, nt in big.cases:
        ctx.case(desc, nontrivial=nt)
    big.count("svh: mp=True runs", len(mp_runs))
    total.merge(big)
    # ---- mp=True smoke run (parent process: a daemonic pool worker may not start a pool of its own)
    if not q:
        smoke = Rec()
        spec = dict(weighted=True, edges=[[[0, 1], 12], [[2, 3], 9], [[4, 5], 14], [[6, 7], 11], [[0, 2], 1],
                                          [[1, 2, 3], 2], [[4, 5, 6], 3], [[7], 2]])
        check_svh(smoke, spec, 10, mp=True)
        for desc, nt in smoke.cases:
            ctx.case(desc, nontrivial=nt)
        smoke.count("svh: mp=True runs")
        total.merge(smoke)
    total.into(ctx)


def replay(data):
    from hv import common
    common.use_repo()
    rec = Rec()
    if data.get("kind") == "svh":
        check_svh(rec, data["spec"], data["max_order"], mp=bool(data.get("mp")), register=False)
        where = f"get_svh(Hypergraph{data['spec']['edges']}, max_order={data['max_order']}, mp={bool(data.get('mp'))})"
    else:
        check_filter(rec, data["spec"], data.get("node_criteria"), data.get("edge_criteria"), data["mode"],
                     bool(data["keep_edges"]), register=False)
        s = data["spec"]
        where = (f"filter_hypergraph({s['cls']} nodes={s['nodes']} edges={s['edges']} weighted={s.get('weighted')}, "
                 f"node_criteria={data.get('node_criteria')}, edge_criteria={data.get('edge_criteria')}, "
                 f"mode={data['mode']!r}, keep_edges={bool(data['keep_edges'])})")
    key = data.get("key")
    others = sorted(k for k in rec.fails if k != key)
    also = f" [other clauses failing on this input: {others}]" if others else ""
    if key is None:
        key = others[0] if others else None
    if key not in rec.fails:
        skipped = f" [{rec.counts}]" if not rec.evals else ""
        return True, f"clause '{key}' holds on {where} ({sum(rec.evals.values())} clause evaluations){skipped}{also}"
    f = rec.fails[key]
    return False, f"{key}: expected {f['expected']!r}, observed {f['observed']!r} on {where}{also}"
