"""Regenerate MANIFEST.json from hv/props.py."""
import json, os
from .props import PROPS, NOT_APPLICABLE, NOT_REACHED, ALL, D_NOTE
from .common import VERIF

BASE = "cd /repo && /venv/bin/python -m pytest -ra -q -p no:cacheprovider --timeout=900 --continue-on-collection-errors"
m = dict(
    version=1,
    setup_cmd="./setup.sh",
    hooks=dict(guard="HGX_VERIF", enable="none needed: contracts are sidecar files under /verif and the checks read /repo's working tree",
               baseline_off_cmd=BASE, source_commits=[], add_only=True),
    engines=[dict(name="pyvc", path="hv/pyvc", serves_properties=["C01", "C02", "C03", "C04", "C05", "C07", "C08", "C09", "C10", "C11", "C12", "C13", "C14", "C16", "C18", "C19", "C20"],
                  kind_free_text="contract-based deductive verifier for a Python subset: AST of /repo's working tree -> verification conditions -> z3 (E-matching); sidecar contracts in hv/contracts"),
             dict(name="lean", path="lean", serves_properties=["C01", "C02", "C03", "C04", "C05", "C08", "C11", "C16", "C18"],
                  kind_free_text="Lean 4 / Mathlib proofs of what needs induction: the two lemmas behind the reachability-class axioms (C05, C08, C11), per-operation refinement => every history refines (C01-C04), the degree-sum identity (C08), the point-update lemma of the chain-state count (C16), the monotonicity and sign laws of a finite sum (C18); re-checked by the checks that rely on them"),
             dict(name="rt", path="hv/rt", serves_properties=sorted(PROPS),
                  kind_free_text="bounded stand-in: run-time contract checking of the real functions against ghost models")],
    checks=[], not_applicable=[],
    notes="See DESIGN.md. known_findings.json lists genuine defects (fixed / recorded).",
)
for p in ALL:
    if p in PROPS:
        d = PROPS[p]
        m["checks"].append(dict(property_id=p, quick_cmd=f"./check {p} --tier quick", thorough_cmd=f"./check {p} --tier thorough",
                                evidence_file=f"/verif/evidence/{p}.json", replay_cmd_template=f"./check {p} --replay {{path}}",
                                engine="pyvc+rt", technique=d["technique"],
                                level_claimed=dict(category=d["level"], text=d["text"], design_ref=d["design_ref"]),
                                level_note=d.get("level_note", D_NOTE)))
    else:
        m["not_applicable"].append(dict(property_id=p, reason=NOT_APPLICABLE.get(p, NOT_REACHED)))
json.dump(m, open(os.path.join(VERIF, "MANIFEST.json"), "w"), indent=1)
print("MANIFEST.json:", len(m["checks"]), "checks,", len(m["not_applicable"]), "not applicable")
