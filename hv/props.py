"""Per-property registration: claimed level, texts for MANIFEST.json, static assumptions."""

D_NOTE = ("Deductive part: verification conditions are generated on every run from the AST of /repo's working tree "
          "(hv/pyvc) against sidecar contracts (hv/contracts) and discharged by z3; trusted: the pyvc encoding, the built-in "
          "theory axioms, integer node labels / real weights / bags for unordered lists, no aliasing, z3. "
          "Bounded part: run-time contracts on the real functions against a ghost model over the stated finite scope.")

PROPS = {
    "C01": dict(
        level="exploration",
        technique="contract-based deductive verification (AST->VC, z3) of the Hypergraph methods + bounded run-time contract checking against a ghost model",
        text=("Every mutator and the main queries of Hypergraph carry requires/ensures/frame/raises contracts over the abstract view "
              "(V, E, W, M, NM, incidence multiplicities) and the representation invariant; the obligations are discharged for all "
              "inputs, sizes and histories (induction over the history via wf). Functions outside the verified subset are covered by "
              "the bounded tier only, so the property as a whole is claimed as exploration with the discharged obligations reported."),
        design_ref="DESIGN.md §7 C01",
        assumptions=[],
    ),
}

NOT_APPLICABLE = {
    "C17": "floating-point EM / k-means on numpy-scipy-sklearn objects: no contract within reach of the deductive engine expresses it, "
           "and both fit() methods crash on the installed SciPy (csr_array.getnnz) before any postcondition could be evaluated",
}
NOT_REACHED = "not reached yet in the time available (planned, see DESIGN.md §7)"
ALL = [f"C{i:02d}" for i in range(1, 21)]
