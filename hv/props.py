"""Per-property registration: claimed level, texts for MANIFEST.json, static assumptions."""

D_NOTE = ("Deductive part: verification conditions are generated on every run from the AST of /repo's working tree "
          "(hv/pyvc) against sidecar contracts (hv/contracts) and discharged by z3; trusted: the pyvc encoding, the built-in "
          "theory axioms, integer node labels / real weights / bags for unordered lists, no aliasing, z3. "
          "Bounded part: run-time contracts on the real functions against a ghost model over the stated finite scope.")

PROPS = {
    "C01": dict(
        level="exploration",
        technique="contract-based deductive verification (AST->VC, z3) of the Hypergraph methods + bounded run-time contract checking against a ghost model",
        text=("Every mutator and the main queries of Hypergraph carry requires/ensures/frame/raises contracts over the abstract view "
              "(V, E, W, M, NM, incidence multiplicities) and the representation invariant; the obligations are discharged for all "
              "inputs and sizes; the induction over the history (per-operation refinement => every history refines) is history_refines of lean/Refine.lean, re-checked on every run. Functions outside the verified subset are covered by "
              "the bounded tier only, so the property as a whole is claimed as exploration with the discharged obligations reported."),
        design_ref="DESIGN.md §7 C01",
        assumptions=[],
    ),
    "C02": dict(
        level="exploration",
        technique="contract-based deductive verification (AST->VC, z3) of the DirectedHypergraph methods + bounded run-time contract checking against a ghost map (source set, target set) -> (weight, metadata)",
        text=("Mutators and role-specific queries of DirectedHypergraph carry contracts over the abstract view with (source, target) keys and a representation invariant per adjacency map (each hyperedge listed exactly once per role); the obligations are discharged for all inputs and histories. Batched forms, neighbours and the remaining queries are covered by the bounded tier (all histories of a stated small scope plus seeded random ones, compared after every prefix with an independent abstract model). Claimed as exploration."),
        design_ref="DESIGN.md §7 C02", assumptions=[]),
    "C03": dict(
        level="exploration",
        technique="contract-based deductive verification (AST->VC, z3) of the TemporalHypergraph methods incl. the half-open time window, the snapshots and aggregate + bounded run-time contract checking against a ghost map (time, node set) -> (weight, metadata)",
        text=("Mutators (negative times rejected), node removal with and without shrinking, and queries incl. get_edges(time_window=(a,b)) = exactly the records with a <= t < b are discharged deductively; the per-time snapshots and aggregate(w) (keys 0..K-1 with the last window holding the largest time; window w has all nodes, exactly the hyperedges with a record in [w*width, (w+1)*width) and the summed weights; sorted() modelled as a time-ordered duplicate-free listing) are discharged deductively as well; non-integer times and the remaining queries are covered by the bounded tier over all histories of a stated small scope plus seeded random histories, 20 windows, 4 widths, with derivations shown not to change the object. Claimed as exploration."),
        design_ref="DESIGN.md §7 C03", assumptions=[]),
    "C04": dict(
        level="exploration",
        technique="contract-based deductive verification (AST->VC, z3) of the MultiplexHypergraph methods, the aggregated hypergraph and the overlap (fold sums) + bounded run-time contract checking against a ghost map (node set, layer) -> (weight, metadata)",
        text=("Mutators, node removal with and without shrinking, queries, aggregated_hypergraph (distinct node sets, weights = sum over the records, defined by fold axioms) and edge_overlap (sum over the layers in use) are discharged deductively; batched insertion and everything else is covered by the bounded tier over all histories of a stated small scope plus seeded random ones, incl. the check that aggregation and overlap leave the multiplex (and its metadata) unchanged. Claimed as exploration."),
        design_ref="DESIGN.md §7 C04", assumptions=[]),
}

def _b(technique, text, ref):
    return dict(level="exploration", technique=technique, text=text, design_ref=ref, assumptions=[])


PROPS.update({
    "C06": _b("bounded run-time contract checking: save->load round trips of all four container types in both formats, hMETIS and HIF readers against reference readers",
              "File I/O, json and pickle are outside the deductive engine; the round-trip contract (same type, nodes, records, weightedness, weights, all metadata; saved "
              "object unchanged) is evaluated on an exhaustively enumerated small scope plus seeded random objects; hMETIS files are generated from a grammar, HIF documents "
              "from the record types. Bounded, not a proof.", "DESIGN.md §7 C06"),
    "C07": _b("contract-based deductive verification (AST->VC, z3) of expose_attributes_for_hashing of the four containers (the hash pre-image is a term over the abstract view only) and of the "
              "table-domain invariants it relies on after every mutator + bounded run-time contract "
              "checking of hash_hypergraph: equal-content history pairs hash equal, every single-element edit hashes different, hashing is pure",
              "Equality direction over 15 history variants per content (orders, detours through removed hyperedges and nodes), difference direction over every single edit, for all "
              "four container types on an enumerated small scope plus random contents. SHA-256 collision resistance is assumed.", "DESIGN.md §7 C07"),
    "C08": dict(level="exploration",
                technique="contract-based deductive verification (AST->VC, z3) of degree, of the breadth-first search _bfs and of every connectivity function of utils/cc.py against the reachability classes defined as least closed sets (two induction lemmas checked by Lean) + bounded run-time contract checking against union-find",
                text=("degree/degree_sequence are proved equal to the cardinality of the set of (filtered) hyperedges containing the node. COMP(hg, n, filter) is defined axiomatically as the least "
                      "set containing n and closed under sharing a filtered hyperedge; _bfs is proved to return exactly that set (while-loop invariant over a queue modelled as a bag), "
                      "connected_components to return each class exactly once, and the six wrappers plus is_isolated/isolated_nodes to be consistent with that partition under the SAME filter. "
                      "That the classes of a symmetric relation are equal or disjoint and stay inside the node set needs induction: both lemmas are proved in Lean from the three definitional "
                      "axioms (lean/Comp.lean, re-checked on every run); the identity 'degrees sum to the total size' is the double-counting lemma degree_sum of lean/Refine.lean over the verified degree contract. "
                      "Termination is not proved; the property as a whole is claimed as exploration."),
                design_ref="DESIGN.md §7 C08", assumptions=["termination of _bfs is not proved", "which element deque.popleft() returns is not modelled (the result is proved for every choice)"]),
    "C09": _b("bounded run-time contract checking of every matrix/tensor function entry by entry against the definition under the returned mapping",
              "scipy.sparse / LabelEncoder code is outside the deductive engine; all hypergraphs on <= 4 nodes (six label/weight variants), all temporal hypergraphs with <= 3 timed "
              "hyperedges, seeded random larger ones, every order present or absent, keep_isolated_nodes both ways.", "DESIGN.md §7 C09"),
    "C10": _b("bounded run-time contract checking of the projections and the simplicial complex against set-builder definitions + contract-based deductive verification (AST->VC, z3) "
              "of the similarity kernels intersection / jaccard_similarity / jaccard_distance",
              "The values the line graphs threshold and carry as weights (|a & b|, |a & b| / |a | b|, one minus it; ZeroDivisionError exactly for two empty sets) are proved for all sets. The "
              "networkx-based projections themselves are outside the deductive engine; every clause of the statement is evaluated on all small hypergraphs (and directed ones) of a stated scope and on "
              "seeded random ones, for all 12 (distance, threshold, weighted) configurations.", "DESIGN.md §7 C10"),
    "C05": dict(level="exploration",
                technique="contract-based deductive verification (AST->VC, z3) of Hypergraph.subhypergraph / subhypergraph_by_orders (sizes and orders) / subhypergraph_largest_component / copy and of get_edges(subhypergraph=True) of Hypergraph and DirectedHypergraph + bounded run-time contract checking of every extraction route",
                text=("The induced sub-hypergraph, the extraction by sizes and copy() carry contracts (exactly the selected hyperedges with original weights and metadata, "
                      "documented node set with original node metadata, same weightedness, source unmodified) discharged for all inputs through loop invariants over the "
                      "contracted add_edge/add_edges/add_nodes/set_*_metadata (get_edges(subhypergraph=True): positional pairing of hyperedges and weights through add_edges' fold contract); the largest component "
                      "is the induced sub-hypergraph of a largest class of the same filter (through the verified _bfs); copy-independence and every route once more are covered by the bounded tier."),
                design_ref="DESIGN.md §7 C05", assumptions=["copy.deepcopy: equal value, no sharing (assumed library contract; independence checked in the bounded tier)"]),
    "C11": _b("bounded run-time contract checking of the motif census against brute-force enumeration of all 3-/4-node subsets, relabelling and insertion-order invariance",
              "Closures over mutable dictionaries, recursion and itertools put the census outside the deductive engine, and the property is a global counting identity: it is checked on "
              "all hypergraphs of a stated small scope (all 2048 on 4 nodes, 5 nodes with few hyperedges), all relabellings, and seeded random ones; the 6 / 171 classes are recomputed "
              "independently. For directed censuses the statement defines no count oracle: only invariance, canonical representatives and 'larger hyperedges ignored' are checked.",
              "DESIGN.md §7 C11"),
    "C12": dict(level="exploration",
                technique="contract-based deductive verification (AST->VC, z3) of in/out degree, their sequences and the exact, strong and weak reciprocity + bounded run-time contract checking of signature and reciprocities",
                text=("in_degree/out_degree(_sequence) are proved equal to the cardinality of the set of (filtered) hyperedges in which the node is a source / target, from the verified "
                      "get_source_edges/get_target_edges contracts. exact_reciprocity, strong_reciprocity and weak_reciprocity are proved to return, for every size in 2..max, (number of "
                      "in-range hyperedges of that size satisfying the definition: reverse stored / every source reached from the targets / some reversed source-target pair) divided by "
                      "(number of hyperedges of that size), 0 where there is none (fold-defined counts; the quotient itself is uninterpreted, so the [0,1] range and the ordering "
                      "exact <= strong <= weak are not derived). The signature vector (numpy) and those inequalities are checked against literal definitions on all directed hypergraphs "
                      "of a stated small scope."), design_ref="DESIGN.md §7 C12", assumptions=[]),
    "C13": dict(level="exploration",
                technique="contract-based deductive verification (AST->VC, z3) of the pairwise-reshuffle kernel for every outcome of the random draws + bounded run-time contract checking of the models over seeds",
                text=("The kernel __pairwise_reshuffle is proved, for all inputs and ALL outcomes of np.random.rand(), to return two duplicate-free node lists of the original sizes whose "
                      "joint node multiset equals that of the inputs (so one step preserves both sizes and every degree). The chain around it (numpy index draws, nested closure mutating "
                      "the enclosing list, de-duplication) and the directed model are covered by the bounded tier over many seeds."),
                design_ref="DESIGN.md §7 C13", assumptions=["np.random.rand() returns a real in [0,1) (havoc)"]),
    "C14": _b("bounded run-time contract checking of the random generators over a parameter grid and many seeds + contract-based deductive verification (AST->VC, z3) of add_random_edge / add_random_edges for every outcome of random.sample",
              "add_random_edge(s), in place and on a copy, are proved to insert only hyperedges of the requested size over existing nodes and to leave the nodes, every other hyperedge's weight "
              "and metadata and all node metadata intact, whatever random.sample returns (its result is havoc within its documented contract; termination of the drawing loop is not proved). "
              "The other numpy/random based generators are outside the deductive engine; structural contracts and same-seed reproducibility are evaluated for every parameter "
              "combination of a stated grid and seeds 0..19 (quick) / 0..199 (thorough).", "DESIGN.md §7 C14"),
    "C15": _b("symbolic-real execution of the real closed-form methods on sympy object arrays (all real parameter values, fixed small shapes) + bounded run-time contract checking of fit()",
              "Floating-point numpy code is outside the deductive engine. The closed forms are executed on arrays of sympy symbols and compared as polynomials with the brute-force sums "
              "over all possible hyperedges: valid for all real u, w but only for the enumerated shapes (N <= 4 quick / 6 thorough, K <= 3). fit() is checked on a grid of hypergraphs, seeds, "
              "K, priors and n_iter.", "DESIGN.md §7 C15"),
    "C16": _b("contract-based deductive verification (AST->VC, z3) of the pairwise-reshuffle kernel for every outcome of rng.choice and of the degree table _deg_seq_to_dict + bounded run-time contract "
              "checking of the sampler's outputs over configurations, burn-in/thinning lengths and seeds",
              "The kernel preserves both sizes, the union and the intersection of the two hyperedges for every draw; the degree table maps each occurring degree to exactly the nodes having it. "
              "The rest is numpy Generator / iterator code: bounded exploration. Every sampled hypergraph is checked for the statement's clauses; the conditioning clauses on all initial hypergraphs of a "
              "small scope and on random degree/size sequences; same seed => same sequence.", "DESIGN.md §7 C16"),
    "C17": _b("bounded run-time contract checking of HypergraphMT.fit / HySC.fit outputs (shapes, ranges, isolated rows, bookkeeping, ascent, agreement with the definition, reproducibility)",
              "Floating-point EM and k-means on numpy/scipy/sklearn objects: no contract within reach of the deductive engine. After the repair of the SciPy incompatibility the models "
              "run, and every clause of the statement is evaluated on 13 fixed and seeded random hypergraphs over a grid of K, seeds, realisations, iteration limits and flags. Several "
              "numerical defects of Hypergraph-MT are recorded as known findings.", "DESIGN.md §7 C17"),
    "C18": _b("bounded run-time contract checking of the random-walk operators (exact rationals as oracle) and of the contagion (exact synchronous reference for rates in {0,1})",
              "Floating point / numpy code: bounded exploration over all connected hypergraphs on <= 5 nodes and all initial conditions, horizons and rate triples of a stated grid.",
              "DESIGN.md §7 C18"),
    "C19": dict(level="exploration",
                technique="contract-based deductive verification (AST->VC, z3) of filter_hypergraph on all four container types over their verified remove_node/remove_edge + bounded run-time contract checking incl. get_svh",
                text=("filter_hypergraph (keep_edges=False) on a Hypergraph, DirectedHypergraph, TemporalHypergraph and MultiplexHypergraph is proved to leave exactly the nodes and hyperedges "
                      "the statement names and to change nothing else about the survivors, with the criteria matcher as an uninterpreted predicate. With keep_edges=True (plain, temporal, multiplex) the node clause, the kept node metadata and 'no survivor fails the hyperedge criteria' are proved as well. The matcher itself, "
                      "the shape of the shrunk hyperedges and get_svh (pandas/scipy) are covered by the bounded tier."), design_ref="DESIGN.md §7 C19",
                assumptions=["matches_criteria is a pure total function of (metadata, criteria); its definition is checked in the bounded tier"]),
    "C20": _b("bounded run-time contract checking of the centralities against networkx on independently built projections, expm, and eigen-equation residuals",
              "Floating point and networkx delegation: bounded exploration only. CEC/HEC are judged only where an independent long-run iteration converges.", "DESIGN.md §7 C20"),
})

# ---- texts brought up to date in the fourth session (functions verified since: projections, signature vector, generators, chain step,
# transition matrix, s-centralities); they replace the entries above
_NEW = {
    'C09': dict(level="exploration",
          technique='contract-based deductive verification (AST->VC, z3) of the binary incidence matrix and the node mapping (hye_list_to_binary_incidence, Hypergraph.get_mapping, get_inverse_mapping, binary_incidence_matrix and its method form) over assumed library contracts of LabelEncoder and the scipy COO constructor + bounded run-time contract checking of every matrix/tensor function entry by entry against the definition under the returned mapping',
          text="Proved for every hypergraph: the returned mapping is a bijection between 0..N-1 and the nodes; the binary incidence matrix has shape (nodes, hyperedges), entries 0/1, and column c is the indicator, under the mapping, of the c-th hyperedge handed out by get_edges() (every hyperedge exactly one column); the coordinate kernel addresses every (member, column) pair exactly once, nothing else, and raises ValueError exactly for a shape that is too small. Weighted incidence (column/weight pairing relies on dict order, which the model does not have), adjacency, Laplacians, degree matrix, tensor and temporal matrices (scipy products; 8-bit wrap-around) are outside the deductive engine: all hypergraphs on <= 4 nodes (six label/weight variants), all temporal hypergraphs with <= 3 timed hyperedges, seeded random larger ones, every order present or absent, keep_isolated_nodes both ways, entry by entry.",
          design_ref='DESIGN.md §7 C09', assumptions=['sklearn LabelEncoder.fit numbers the fitted labels 0..N-1 bijectively; transform is element-wise and raises ValueError for an unknown label; classes_ lists every label once', 'scipy.sparse.coo_array: ValueError unless the coordinate lists are equally long and inside the shape; an entry addressed by no coordinate is 0, by exactly one coordinate its datum; the element type holds 0 / 1 exactly; tocsr() keeps the table', 'node labels are integers in the model']),
    'C11': dict(level="exploration",
          technique='contract-based deductive verification (AST->VC, z3; two lemmas in Lean) of the connectivity test _is_connected that selects the patterns and the node subsets + bounded run-time contract checking of the motif census against brute-force enumeration of all 3-/4-node subsets, relabelling and insertion-order invariance',
          text="_is_connected(edges, N) is proved, for every list of duplicate-free tuples and every N >= 1, to return True exactly when the list is non-empty, exactly N labels occur, every label has a neighbour and all labels lie in one reachability class (least set closed under sharing a listed tuple) - through loop invariants over the real adjacency-building loops and the real queue search. The census itself (three enumerators with closures over mutable dictionaries, recursion and itertools; a global counting identity) is outside the deductive engine: it is checked on all hypergraphs of a stated small scope (all 2048 on 4 nodes, 5 nodes with few hyperedges), all relabellings, and seeded random ones; the 6 / 171 classes are recomputed independently. For directed censuses the statement defines no count oracle: only invariance, canonical representatives and 'larger hyperedges ignored' are checked.",
          design_ref='DESIGN.md §7 C11', assumptions=['which element deque.pop() / next(iter(dict)) returns is not modelled (any element); termination of the search is not proved', 'comp_class (classes of a symmetric relation are equal or disjoint) is proved in lean/Comp.lean, not by z3']),
    'C10': dict(level="exploration",
          technique='contract-based deductive verification (AST->VC, z3) of clique_projection, bipartite_projection, line_graph and directed_line_graph (both distances, weighted or not) over an assumed networkx contract, and of the similarity kernels + bounded run-time contract checking of every projection and the simplicial complex against set-builder definitions',
          text='clique_projection (link iff two different nodes share a hyperedge; documented vertex set), line_graph (id table a bijection onto the hyperedges; link iff different, sharing a node and similarity >= s; weight = similarity or 1) and directed_line_graph (arc e->f iff e != f and similarity of target(e) and source(f) >= s) are proved for all hypergraphs, thresholds and both distance functions, through loop invariants over the real nested loops; intersection / jaccard_similarity / jaccard_distance for all sets. bipartite_projection: the id table maps the names N<i> / E<j> bijectively onto nodes / hyperedges and a hyperedge vertex is linked to a node vertex iff the node belongs to the hyperedge (vertex names as a datatype; assumed: str(i) is injective and contains no letter). networkx is modelled by an assumed contract; simplicial_complex is outside the subset. Every clause of the statement is evaluated on all small hypergraphs of a stated scope and on seeded random ones for all 12 (distance, threshold, weighted) configurations.',
          design_ref='DESIGN.md §7 C10', assumptions=['networkx Graph / DiGraph are modelled by an assumed library contract (vertex set, set of ordered pairs, weight attribute)', "the lists stored in line_graph's dict `adj` are enumerations of their bags (positions exist, are injective on duplicate-free lists); the enumeration is a function of (dict value, key)"]),
    'C12': dict(level="exploration",
          technique='contract-based deductive verification (AST->VC, z3) of in/out degree, their sequences, the exact, strong and weak reciprocity and the hyperedge signature vector + bounded run-time contract checking of all of them, also on edited objects',
          text='in_degree/out_degree(_sequence) are proved equal to the cardinality of the set of (filtered) hyperedges in which the node is a source / target. exact_, strong_ and weak_reciprocity are proved to return, for every size in 2..max, (number of in-range hyperedges of that size satisfying the definition) divided by (number of hyperedges of that size), 0 where there is none (fold-defined counts; the quotient is uninterpreted, so the [0,1] range and exact <= strong <= weak are not derived). hyperedge_signature_vector is proved to put into cell (s, t) of the flattened (m-1) x (m-1) table the number of hyperedges with s sources and t targets among those of total size <= m, with the default bound and an explicit one (numpy by an assumed contract). The inequalities and the cell sum are checked against literal definitions on all directed hypergraphs of a stated small scope, also after count-preserving edits of the same object.',
          design_ref='DESIGN.md §7 C12', assumptions=['numpy arrays (np.zeros, a[i, j] += 1, flatten, np.array) are modelled by an assumed library contract']),
    'C14': dict(level="exploration",
          technique='contract-based deductive verification (AST->VC, z3) of random_hypergraph, random_uniform_hypergraph and add_random_edge / add_random_edges for every outcome of random.sample + bounded run-time contract checking of all generators over a parameter grid and many seeds',
          text='random_hypergraph / random_uniform_hypergraph are proved, whatever random.sample returns, to yield an unweighted hypergraph with exactly the nodes 0..n-1, only duplicate-free hyperedges of requested sizes over them, at most the requested number per size and at least one when one was requested. add_random_edge(s), in place and on a copy, are proved to insert only hyperedges of the requested size over existing nodes and to leave everything else intact. Termination of the drawing loops is not proved. Same-seed reproducibility, scale-free, activity-driven and the shuffles (numpy draws) are evaluated for every parameter combination of a stated grid and seeds 0..19 (quick) / 0..199 (thorough).',
          design_ref='DESIGN.md §7 C14', assumptions=['random.sample is havoc within its documented contract; termination of the drawing loops is not proved']),
    'C16': dict(level="exploration",
          technique="contract-based deductive verification (AST->VC, z3; one lemma in Lean) of the chain step _mcmc_step, the pairwise-reshuffle kernel and the degree table for every outcome of the random draws + bounded run-time contract checking of the sampler's outputs over configurations, burn-in/thinning lengths and seeds",
          text="The kernel preserves both sizes, the union and the intersection of the two hyperedges for every draw; one chain step (_mcmc_step), for every pair of positions, every reshuffle and either accept/reject outcome, keeps the length of the configuration, the size at every position and the number of hyperedges each node occurs in (fold-defined count, point-update lemma proved in Lean), so conditioned degrees and size counts are carried through the chain; the degree table maps each occurring degree to exactly the nodes having it. The acceptance numerics are declared opaque. sample / _match_sequences / _extract_hye are numpy Generator and iterator code: every sampled hypergraph is checked for the statement's clauses, the conditioning clauses on all initial hypergraphs of a small scope (incl. a maximum size below the largest initial hyperedge) and on random sequences; same seed => same samples.",
          design_ref='DESIGN.md §7 C16', assumptions=['hye_list_to_binary_incidence, HyMMSBM.poisson_params, HyMMSBM.log_kappa and _transition_prob are declared opaque in _mcmc_step: assumed not to modify the chain state (they receive tuples)', 'rng.choice / rng.random are havoc within their documented contracts']),
    'C18': dict(level="exploration",
          technique='contract-based deductive verification (AST->VC, z3; finite-sum laws in Lean) of transition_matrix over an assumed numpy contract and of simplicial_contagion for every outcome of its random draws + bounded run-time contract checking of the random-walk operators (exact rationals as oracle) and of the contagion (exact synchronous reference for rates in {0,1})',
          text='transition_matrix is proved to return the N x N table whose entry (i, j) is wsum(i, j) divided by the row sum of the table of all wsum(i, .), wsum adding (size - 1) over the hyperedges containing both i and j, and to raise AssertionError exactly when the hypergraph is not connected (labels 0..N-1 required). simplicial_contagion is proved, for all hypergraphs, 0/1 initial states, horizons, rates and all outcomes of the random draws, to perform synchronous steps in which a susceptible node is infected only through an infected pairwise neighbour (beta > 0) or a triangle whose two other members are infected (beta_D > 0) and certainly when such a source has rate >= 1, an infected node recovers only when mu > 0 and certainly when mu >= 1 (for rates in {0, 1}: exactly the deterministic spreading of the statement); the returned entries are the infected counts divided by the number of nodes, starting at the initial count, never decreasing when mu <= 0 and never increasing when both infection rates are <= 0. The quotient is uninterpreted, so row-stochasticity, the [0, 1] range, the stationary state, densities and sampled walks are decided by the bounded tier with exact rationals.',
          design_ref='DESIGN.md §7 C18', assumptions=['numpy: np.zeros, a[i, j] += x, np.matrix, a.sum(axis=1), matrix / column, sparse.csr_matrix, np.linspace(0, 0, T), array / number are modelled by an assumed library contract; the quotient is uninterpreted', 'np.random.random() returns an arbitrary real in [0, 1)', 'vsum_mono / vsum_nonneg / vsum_zero (laws of a finite sum) are proved in lean/Vsum.lean, not by z3; that the trajectory is the iteration of the proved step is an informal induction over time']),
    'C20': dict(level="exploration",
          technique='contract-based deductive verification (AST->VC, z3) of s_betweenness / s_closeness / s_betweenness_nodes / s_closeness_nodes on top of the verified line_graph and bipartite_projection, networkx centralities uninterpreted + bounded run-time contract checking of all centralities against networkx on independently built projections, expm, and eigen-equation residuals',
          text="s_betweenness and s_closeness are proved to return exactly one value per hyperedge, namely networkx's betweenness / closeness of the vertex that the (verified) s-line graph's id table assigns to it. s_betweenness_nodes / s_closeness_nodes are proved to return exactly one value per node, the centrality of its vertex N<i> in the (verified) bipartite projection. The temporal averages, the sub-hypergraph centrality and CEC / HEC are floating point and networkx delegation: bounded exploration; CEC/HEC are judged only where an independent long-run iteration converges.",
          design_ref='DESIGN.md §7 C20', assumptions=['nx.betweenness_centrality / nx.closeness_centrality are uninterpreted functions of the graph; networkx graphs by the assumed contract of C10']),
}
PROPS.update(_NEW)

NOT_APPLICABLE = {}
NOT_REACHED = "not reached yet in the time available (planned, see DESIGN.md §7)"
ALL = [f"C{i:02d}" for i in range(1, 21)]
