"""Per-property registration: claimed level, texts for MANIFEST.json, static assumptions."""

D_NOTE = ("Deductive part: verification conditions are generated on every run from the AST of /repo's working tree "
          "(hv/pyvc) against sidecar contracts (hv/contracts) and discharged by z3; trusted: the pyvc encoding, the built-in "
          "theory axioms, integer node labels / real weights / bags for unordered lists, no aliasing, z3. "
          "Bounded part: run-time contracts on the real functions against a ghost model over the stated finite scope.")

PROPS = {
    "C01": dict(
        level="exploration",
        technique="contract-based deductive verification (AST->VC, z3) of the Hypergraph methods + bounded run-time contract checking against a ghost model",
        text=("Every mutator and the main queries of Hypergraph carry requires/ensures/frame/raises contracts over the abstract view "
              "(V, E, W, M, NM, incidence multiplicities) and the representation invariant; the obligations are discharged for all "
              "inputs, sizes and histories (induction over the history via wf). Functions outside the verified subset are covered by "
              "the bounded tier only, so the property as a whole is claimed as exploration with the discharged obligations reported."),
        design_ref="DESIGN.md §7 C01",
        assumptions=[],
    ),
    "C02": dict(
        level="exploration",
        technique="bounded run-time contract checking of DirectedHypergraph against a ghost map (source set, target set) -> (weight, metadata); deductive obligations where contracts exist",
        text=("Every public mutator/query of DirectedHypergraph is executed on all histories of a stated small scope and on seeded random "
              "histories, and compared after every prefix with an independent abstract model; deductive obligations (hv/contracts) cover "
              "the functions listed in the evidence. Claimed as exploration."),
        design_ref="DESIGN.md §7 C02", assumptions=[]),
    "C03": dict(
        level="exploration",
        technique="bounded run-time contract checking of TemporalHypergraph against a ghost map (time, node set) -> (weight, metadata), incl. windows, snapshots, aggregate",
        text=("All histories of a stated small scope plus seeded random histories; after every prefix all queries, 20 time windows, the per-time "
              "snapshots and aggregate(w) are compared with an independent abstract model, and derivations are shown not to change the object."),
        design_ref="DESIGN.md §7 C03", assumptions=[]),
    "C04": dict(
        level="exploration",
        technique="bounded run-time contract checking of MultiplexHypergraph against a ghost map (node set, layer) -> (weight, metadata), incl. aggregation and overlap",
        text=("All histories of a stated small scope plus seeded random histories; after every prefix all queries, the aggregated hypergraph and "
              "the overlap are compared with an independent abstract model, and both derivations are shown to leave the multiplex unchanged."),
        design_ref="DESIGN.md §7 C04", assumptions=[]),
}

def _b(technique, text, ref):
    return dict(level="exploration", technique=technique, text=text, design_ref=ref, assumptions=[])


PROPS.update({
    "C06": _b("bounded run-time contract checking: save->load round trips of all four container types in both formats, hMETIS and HIF readers against reference readers",
              "File I/O, json and pickle are outside the deductive engine; the round-trip contract (same type, nodes, records, weightedness, weights, all metadata; saved "
              "object unchanged) is evaluated on an exhaustively enumerated small scope plus seeded random objects; hMETIS files are generated from a grammar, HIF documents "
              "from the record types. Bounded, not a proof.", "DESIGN.md §7 C06"),
    "C07": _b("bounded run-time contract checking of hash_hypergraph: equal-content history pairs hash equal, every single-element edit hashes different, hashing is pure; "
              "the table-domain invariants the hash relies on are deductive obligations of C01-C04",
              "Equality direction over 15 history variants per content (orders, detours through removed hyperedges and nodes), difference direction over every single edit, for all "
              "four container types on an enumerated small scope plus random contents. SHA-256 collision resistance is assumed.", "DESIGN.md §7 C07"),
    "C09": _b("bounded run-time contract checking of every matrix/tensor function entry by entry against the definition under the returned mapping",
              "scipy.sparse / LabelEncoder code is outside the deductive engine; all hypergraphs on <= 4 nodes (six label/weight variants), all temporal hypergraphs with <= 3 timed "
              "hyperedges, seeded random larger ones, every order present or absent, keep_isolated_nodes both ways.", "DESIGN.md §7 C09"),
    "C10": _b("bounded run-time contract checking of the projections and the simplicial complex against set-builder definitions",
              "networkx-based code is outside the deductive engine; every clause of the statement is evaluated on all small hypergraphs (and directed ones) of a stated scope and on "
              "seeded random ones, for all 12 (distance, threshold, weighted) configurations.", "DESIGN.md §7 C10"),
    "C05": dict(level="exploration",
                technique="contract-based deductive verification (AST->VC, z3) of Hypergraph.subhypergraph / subhypergraph_by_orders / copy + bounded run-time contract checking of every extraction route",
                text=("The induced sub-hypergraph, the extraction by sizes and copy() carry contracts (exactly the selected hyperedges with original weights and metadata, "
                      "documented node set with original node metadata, same weightedness, source unmodified) discharged for all inputs through loop invariants over the "
                      "contracted add_edge/add_nodes/set_*_metadata; get_edges(subhypergraph=True), the largest component and copy-independence are covered by the bounded tier."),
                design_ref="DESIGN.md §7 C05", assumptions=["copy.deepcopy: equal value, no sharing (assumed library contract; independence checked in the bounded tier)"]),
    "C14": _b("bounded run-time contract checking of the random generators over a parameter grid and many seeds",
              "numpy/random based generators are outside the deductive engine; structural contracts and same-seed reproducibility are evaluated for every parameter "
              "combination of a stated grid and seeds 0..19 (quick) / 0..199 (thorough).", "DESIGN.md §7 C14"),
    "C18": _b("bounded run-time contract checking of the random-walk operators (exact rationals as oracle) and of the contagion (exact synchronous reference for rates in {0,1})",
              "Floating point / numpy code: bounded exploration over all connected hypergraphs on <= 5 nodes and all initial conditions, horizons and rate triples of a stated grid.",
              "DESIGN.md §7 C18"),
    "C20": _b("bounded run-time contract checking of the centralities against networkx on independently built projections, expm, and eigen-equation residuals",
              "Floating point and networkx delegation: bounded exploration only. CEC/HEC are judged only where an independent long-run iteration converges.", "DESIGN.md §7 C20"),
})

NOT_APPLICABLE = {
    "C17": "floating-point EM / k-means on numpy-scipy-sklearn objects: no contract within reach of the deductive engine expresses it, "
           "and both fit() methods crash on the installed SciPy (csr_array.getnnz) before any postcondition could be evaluated",
}
NOT_REACHED = "not reached yet in the time available (planned, see DESIGN.md §7)"
ALL = [f"C{i:02d}" for i in range(1, 21)]
