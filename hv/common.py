"""Shared plumbing of every check: run context for the bounded tier, evidence, replays, known findings."""
import json
import os
import random
import sys
import time
import hashlib

VERIF = os.path.dirname(os.path.dirname(os.path.abspath(__file__)))
REPO = os.environ.get("VERIF_REPO", "/repo")


def use_repo():
    """Import hypergraphx from the tree under check (never from an installed copy)."""
    if sys.path[0] != REPO:
        sys.path.insert(0, REPO)
    for m in list(sys.modules):
        if m == "hypergraphx" or m.startswith("hypergraphx."):
            f = getattr(sys.modules[m], "__file__", "") or ""
            if not f.startswith(REPO):
                del sys.modules[m]


def jsonable(x):
    if isinstance(x, (str, int, float, bool)) or x is None:
        return x
    if isinstance(x, dict):
        return {str(k): jsonable(v) for k, v in x.items()}
    if isinstance(x, (list, tuple, set, frozenset)):
        xs = list(x)
        if isinstance(x, (set, frozenset)):
            try:
                xs = sorted(xs)
            except TypeError:
                xs = sorted(xs, key=repr)
        return [jsonable(v) for v in xs]
    try:
        import numpy as np
        if isinstance(x, np.generic):
            return x.item()
        if isinstance(x, np.ndarray):
            return x.tolist()
    except Exception:
        pass
    return repr(x)


class Violation:
    def __init__(self, prop, function, clause, input, expected, observed, key, replay):
        self.prop, self.function, self.clause = prop, function, clause
        self.input, self.expected, self.observed, self.key, self.replay = input, expected, observed, key, replay


class Ctx:
    """Run context handed to a bounded-tier driver (hv/rt/cXX.py: run(ctx))."""

    def __init__(self, prop, tier, seed):
        self.prop, self.tier, self.seed = prop, tier, seed
        self.quick = tier == "quick"
        self.rng = random.Random(seed)
        self.t0 = time.time()
        self.evaluations = 0
        self._distinct = set()
        self.samples = []
        self.violations = []
        self.known_hits = {}
        self.assumptions = []
        self.rules = []
        self.counters = {}
        self.exhaustive_parts = []
        self.contract_evals = {}
        self._known = load_known().get("findings", [])

    # -- bookkeeping
    def case(self, desc, nontrivial=True):
        """Register one explored case. desc: json-able description; distinctness is by its canonical text."""
        self.evaluations += 1
        if nontrivial:
            h = hashlib.sha1(json.dumps(jsonable(desc), sort_keys=True).encode()).digest()[:10]
            if h not in self._distinct:
                self._distinct.add(h)
                if len(self.samples) < 5 or (len(self.samples) < 12 and self.rng.random() < 0.01):
                    self.samples.append(jsonable(desc))

    def count(self, name, n=1):
        self.counters[name] = self.counters.get(name, 0) + n

    def clause(self, name):
        """Record that contract clause `name` was evaluated on a real execution."""
        self.contract_evals[name] = self.contract_evals.get(name, 0) + 1

    def rule(self, text):
        if text not in self.rules:
            self.rules.append(text)

    def assume(self, text):
        if text not in self.assumptions:
            self.assumptions.append(text)

    def elapsed(self):
        return time.time() - self.t0

    # -- failures
    def fail(self, function, clause, input, expected=None, observed=None, key=None, replay=None):
        """A contract clause evaluated to false on a real execution.
        key identifies the *kind* of failure (function/clause/input shape) for known-findings matching."""
        key = key or f"{function}:{clause}"
        for kf in self._known:
            if kf.get("property") == self.prop and kf.get("key") == key:
                if key not in self.known_hits:
                    self.known_hits[key] = dict(what=kf.get("what", key), example=jsonable(input))
                return
        if len(self.violations) < 50:
            self.violations.append(Violation(self.prop, function, clause, jsonable(input), jsonable(expected),
                                             jsonable(observed), key, replay))

    def check(self, cond, function, clause, input, expected=None, observed=None, key=None, replay=None):
        self.clause(f"{function}:{clause}")
        if not cond:
            self.fail(function, clause, input, expected, observed, key, replay)
        return cond


def load_known():
    p = os.path.join(VERIF, "known_findings.json")
    if os.path.exists(p):
        return json.load(open(p))
    return {"fixed": [], "findings": []}


def write_replay(prop, name, payload):
    d = os.path.join(VERIF, "replays")
    os.makedirs(d, exist_ok=True)
    safe = "".join(ch if ch.isalnum() or ch in "-_." else "_" for ch in name)[:120]
    path = os.path.join(d, f"{prop}-{safe}.json")
    with open(path, "w") as f:
        json.dump(jsonable(payload), f, indent=1, sort_keys=True)
    return path


def write_evidence(prop, ev):
    d = os.path.join(VERIF, "evidence")
    os.makedirs(d, exist_ok=True)
    tmp = os.path.join(d, f".{prop}.json.tmp{os.getpid()}")
    with open(tmp, "w") as f:
        json.dump(jsonable(ev), f, indent=1, sort_keys=True)
    os.replace(tmp, os.path.join(d, f"{prop}.json"))


def merge_ctx(ctx, parts):
    """Merge the picklable summaries returned by worker processes (see ctx_summary) into ctx."""
    for s in parts:
        ctx.evaluations += s["evaluations"]
        ctx._distinct |= s["distinct"]
        for x in s["samples"]:
            if len(ctx.samples) < 12:
                ctx.samples.append(x)
        for v in s["violations"]:
            if len(ctx.violations) < 50:
                ctx.violations.append(Violation(*v))
        for k, v in s["known_hits"].items():
            ctx.known_hits.setdefault(k, v)
        for k, v in s["counters"].items():
            ctx.counters[k] = ctx.counters.get(k, 0) + v
        for k, v in s["contract_evals"].items():
            ctx.contract_evals[k] = ctx.contract_evals.get(k, 0) + v
        for r in s["rules"]:
            ctx.rule(r)
        for a in s["assumptions"]:
            ctx.assume(a)


def ctx_summary(ctx):
    return dict(evaluations=ctx.evaluations, distinct=ctx._distinct, samples=ctx.samples[:4],
                violations=[(v.prop, v.function, v.clause, v.input, v.expected, v.observed, v.key, v.replay) for v in ctx.violations],
                known_hits=ctx.known_hits, counters=ctx.counters, contract_evals=ctx.contract_evals,
                rules=ctx.rules, assumptions=ctx.assumptions)


def parallel_map(ctx, worker, chunks, jobs=None):
    """Run worker(sub_ctx, chunk) in forked processes; deterministic merge in chunk order."""
    import multiprocessing as mp
    jobs = jobs or min(16, os.cpu_count() or 4)
    if len(chunks) <= 1 or jobs <= 1:
        for i, ch in enumerate(chunks):
            sub = Ctx(ctx.prop, ctx.tier, ctx.seed + i)
            worker(sub, ch)
            merge_ctx(ctx, [ctx_summary(sub)])
        return
    mpc = mp.get_context("fork")
    with mpc.Pool(jobs) as pool:
        parts = pool.map(_run_chunk, [(worker, ctx.prop, ctx.tier, ctx.seed + i, ch) for i, ch in enumerate(chunks)])
    merge_ctx(ctx, parts)


def _run_chunk(args):
    worker, prop, tier, seed, ch = args
    sub = Ctx(prop, tier, seed)
    worker(sub, ch)
    return ctx_summary(sub)
